"""Common runner: spawns worker subprocesses, merges results, writes evidence,
handles known findings, canaries and replays.

usage:  check <ID> [--tier quick|thorough] [--workers N] [--replay PATH]

Exit status: 0 = property held on everything explored (known findings are
printed as KNOWN-FINDING lines), 1 = at least one VIOLATION line printed,
2 = the harness itself is broken (canary silent, worker crashed) -- no
VIOLATION line is printed in that case.
"""
import argparse
import hashlib
import importlib
import json
import os
import shutil
import subprocess
import sys
import tempfile
import time

VERIF = os.path.dirname(os.path.dirname(os.path.abspath(__file__)))
REPO = os.environ.get('MALT_REPO', '/repo')
PY = os.environ.get('MALT_PY', '/venv/bin/python')
GUARD = 'PENNYLANEAI_DIASTATIC_MALT_VERIF'


def load_prop(pid):
  return importlib.import_module('mc.props.%s' % pid.lower())


def load_known():
  p = os.path.join(VERIF, 'known_findings.json')
  if not os.path.exists(p):
    return []
  with open(p) as f:
    return json.load(f)['findings']


def child_env(scratch, hashseed):
  env = dict(os.environ)
  env['PYTHONPATH'] = REPO + os.pathsep + VERIF
  env['PYTHONHASHSEED'] = str(hashseed)
  env['TMPDIR'] = scratch
  env['PYTHONDONTWRITEBYTECODE'] = '1'
  env[GUARD] = '1'
  env.setdefault('TF_CPP_MIN_LOG_LEVEL', '3')
  env.pop('AUTOGRAPH_STRICT_CONVERSION', None)
  env.pop('AUTOGRAPH_VERBOSITY', None)
  return env


def sig_hash(s):
  return hashlib.sha1(s.encode()).hexdigest()[:12]


def write_replay(pid, viol):
  d = os.path.join(VERIF, 'replays', pid)
  os.makedirs(d, exist_ok=True)
  h = sig_hash(json.dumps(viol, sort_keys=True, default=str))
  path = os.path.join(d, '%s.json' % h)
  with open(path, 'w') as f:
    json.dump({'property': pid, 'violation': viol}, f, indent=1, default=str)
  # a plain test that replays the one failing case without the explorer / runner
  with open(os.path.join(d, 'test_replay_%s.py' % h), 'w') as f:
    f.write(REPLAY_TEST % {'pid': pid, 'path': path, 'msg': repr(viol.get('msg', ''))[:3000]})
  return path


REPLAY_TEST = '''"""Stand-alone replay of one violation of %(pid)s (no explorer, no worker pool).
run:  PYTHONPATH=/repo:/verif /venv/bin/python -m pytest -q <this file>   (or simply execute it)
reported as: %(msg)s
"""
import json
import logging
import sys
import warnings

sys.path[:0] = ['/repo', '/verif']


def test_replay():
  from mc import worker
  import importlib
  logging.disable(logging.CRITICAL)
  warnings.simplefilter('ignore')
  prop = importlib.import_module('mc.props.%(pid)s'.lower())
  if hasattr(prop, 'setup'):
    prop.setup('quick', 0)
  item = worker.tuple_deep(json.load(open(%(path)r))['violation']['replay']['item'])
  res = prop.check(item)
  assert not res.get('viol'), [v['msg'] for v in res['viol']]


if __name__ == '__main__':
  test_replay()
  print('no violation on this tree')
'''


def main(argv=None):
  ap = argparse.ArgumentParser()
  ap.add_argument('pid')
  ap.add_argument('--tier', default=os.environ.get('VERIF_TIER', 'quick'))
  ap.add_argument('--workers', type=int, default=int(os.environ.get('VERIF_WORKERS', '16')))
  ap.add_argument('--replay')
  ap.add_argument('--limit', type=int, default=0, help='debug: stop after N items per worker')
  ap.add_argument('--no-evidence', action='store_true')
  a = ap.parse_args(argv)
  pid = a.pid.upper()
  tier = a.tier if a.tier in ('quick', 'thorough') else 'quick'
  try:
    seed = int(os.environ.get('VERIF_SEED', '0'))
  except ValueError:
    seed = 0

  scratch = tempfile.mkdtemp(prefix='maltverif_%s_' % pid)
  try:
    if a.replay:
      return do_replay(pid, a.replay, scratch, seed)
    return do_check(pid, tier, seed, a.workers, scratch, a.limit, a.no_evidence)
  finally:
    shutil.rmtree(scratch, ignore_errors=True)


def do_replay(pid, path, scratch, seed):
  outs = []
  for k in range(2):
    out = os.path.join(scratch, 'replay%d.json' % k)
    r = subprocess.run([PY, '-m', 'mc.worker', 'replay', pid, path, out],
                       env=child_env(scratch, seed % 4), cwd=VERIF)
    if r.returncode != 0 or not os.path.exists(out):
      print('replay run crashed (status %s)' % r.returncode)
      return 2
    outs.append(json.load(open(out)))
  if outs[0] != outs[1]:
    print('NONDETERMINISTIC replay: two runs differ')
    print(json.dumps(outs, indent=1)[:2000])
    return 2
  v = outs[0]['violations']
  if v:
    print('replay reproduces %d violation(s):' % len(v))
    for x in v[:5]:
      print('  sig=%s  %s' % (x.get('sig'), x.get('msg')))
    print('VIOLATION property=%s replay=%s' % (pid, path))
    return 1
  print('replay: no violation on this tree')
  return 0


def do_check(pid, tier, seed, W, scratch, limit, no_evidence):
  t0 = time.time()
  prop = load_prop(pid)
  W = max(1, min(W, getattr(prop, 'MAX_WORKERS', W)))
  procs = []
  for w in range(W):
    out = os.path.join(scratch, 'w%d.jsonl' % w)
    wscratch = os.path.join(scratch, 'tmp%d' % w)
    os.makedirs(wscratch)
    hs = (seed + w) % 4 if tier == 'thorough' else (seed + w) % 2
    cmd = [PY, '-m', 'mc.worker', 'run', pid, tier, str(w), str(W), str(seed), out, str(limit)]
    logf = open(os.path.join(scratch, 'w%d.log' % w), 'w')
    procs.append((subprocess.Popen(cmd, env=child_env(wscratch, hs), cwd=VERIF,
                                   stdout=logf, stderr=subprocess.STDOUT), out, logf, hs))
  broken = []
  merged = {'n': {}, 'outcomes': set(), 'viol': [], 'samples': [], 'items': 0, 'nontrivial': set(),
            'canaries': {}, 'hashseeds': sorted(set(p[3] for p in procs)), 'extra': {}}
  for w, (p, out, logf, hs) in enumerate(procs):
    rc = p.wait()
    logf.close()
    done = False
    if os.path.exists(out):
      for line in open(out):
        try:
          rec = json.loads(line)
        except ValueError:
          continue
        k = rec.get('k')
        if k == 'viol':
          merged['viol'].append(rec['v'])
        elif k == 'done':
          done = True
          for c, v in rec['n'].items():
            if isinstance(v, (int, float)):
              merged['n'][c] = merged['n'].get(c, 0) + v
          merged['outcomes'].update(rec['outcomes'])
          merged['nontrivial'].update(rec['nontrivial'])
          merged['items'] += rec['items']
          merged['samples'].extend(rec['samples'])
          for c, v in rec.get('canaries', {}).items():
            merged['canaries'][c] = merged['canaries'].get(c, False) or v
          for c, v in rec.get('extra', {}).items():
            merged['extra'].setdefault(c, []).append(v)
    if rc != 0 or not done:
      log = open(os.path.join(scratch, 'w%d.log' % w)).read()[-3000:]
      broken.append('worker %d exit=%s done=%s\n%s' % (w, rc, done, log))

  status = 0
  if broken:
    print('HARNESS-BROKEN: %d worker(s) failed' % len(broken))
    print(broken[0])
    status = 2
  silent = [c for c, v in merged['canaries'].items() if not v]
  if silent:
    print('HARNESS-BROKEN: canary silent (oracle did not fire on a deliberately broken harness configuration): %s' % silent)
    status = 2

  # known findings
  known = [k for k in load_known() if k.get('property') == pid and k.get('status') == 'known']
  known_sigs = {k['signature']: k for k in known}
  by_sig = {}
  for v in merged['viol']:
    by_sig.setdefault(v['sig'], []).append(v)
  new_sigs = []
  for sig, vs in sorted(by_sig.items()):
    vs.sort(key=lambda v: len(json.dumps(v, default=str)))
    if sig in known_sigs:
      print('KNOWN-FINDING: property=%s %s [%d occurrence(s); signature %s]' % (
          pid, known_sigs[sig].get('description', ''), len(vs), sig))
    else:
      new_sigs.append(sig)
  for sig in new_sigs:
    v = by_sig[sig][0]
    path = write_replay(pid, v)
    print('violation signature=%s occurrences=%d: %s' % (sig, len(by_sig[sig]), v.get('msg', '')[:600]))
    print('VIOLATION property=%s replay=%s' % (pid, path))
  if new_sigs and status == 0:
    status = 1

  wall = time.time() - t0
  if not no_evidence:
    write_evidence(prop, pid, tier, seed, merged, wall, len(new_sigs), by_sig, known_sigs, status)
  n = merged['n']
  print('%s tier=%s items=%d distinct_outcomes=%d violations=%d(new)/%d(all sigs) wall=%.1fs %s' % (
      pid, tier, merged['items'], len(merged['outcomes']), len(new_sigs), len(by_sig), wall,
      ' '.join('%s=%s' % kv for kv in sorted(n.items()))))
  return status


def write_evidence(prop, pid, tier, seed, merged, wall, nviol, by_sig, known_sigs, status):
  n = merged['n']
  cov = {
      'evaluations': int(n.get('evaluations', merged['items'])),
      'distinct_nontrivial': len(merged['nontrivial']),
      'rule': getattr(prop, 'RULE', ''),
      'samples': merged['samples'][:6] or ['(none)'],
      'items': merged['items'],
      'distinct_outcomes': len(merged['outcomes']),
      'hash_seeds_run': merged['hashseeds'],
      'canaries_fired': merged['canaries'],
      'counters': {k: v for k, v in sorted(n.items())},
      'known_finding_signatures_seen': sorted(s for s in by_sig if s in known_sigs),
      'exhaustive': bool(getattr(prop, 'exhaustive', lambda tier, n: False)(tier, n)),
  }
  fin = getattr(prop, 'finalize', None)
  if fin:
    cov.update(fin(merged, tier))
  ev = {
      'property_id': pid,
      'tier': tier,
      'seed': seed,
      'level': prop.LEVEL,
      'coverage': cov,
      'assumptions': list(getattr(prop, 'ASSUMPTIONS', [])),
      'wall_s': round(wall, 2),
      'violations': nviol,
      'status': {0: 'pass', 1: 'violation', 2: 'harness-broken'}[status],
  }
  d = os.path.join(VERIF, 'evidence')
  os.makedirs(d, exist_ok=True)
  tmp = os.path.join(d, '.%s.json.tmp' % pid)
  with open(tmp, 'w') as f:
    json.dump(ev, f, indent=1, default=str)
  os.replace(tmp, os.path.join(d, '%s.json' % pid))


if __name__ == '__main__':
  sys.exit(main())
