"""Small helpers shared by the property checkers."""
import glob
import os
import sys
import tempfile


def purge_generated():
  """malt leaks one temp module file + one sys.modules entry per conversion."""
  for k in [k for k in sys.modules if k.startswith('__autograph_generated_file')]:
    m = sys.modules.pop(k)
    fn = getattr(m, '__file__', None)
    if fn:
      try:
        os.remove(fn)
      except OSError:
        pass
  d = tempfile.gettempdir()
  if 'maltverif_' in d:
    for p in glob.glob(os.path.join(d, '__autograph_generated_file*')):
      try:
        os.remove(p)
      except OSError:
        pass


def V(sig, msg, item, **extra):
  r = {'item': item}
  r.update(extra)
  return {'sig': sig, 'msg': msg, 'replay': r}
