"""Dynamic variable-access log derived from the probe trace (E3).

The generated programs consist of a handful of statement forms whose reads and
writes are evident from their AST, so the access log is reconstructed from the
ordered probe events: at a node event the statement's reads (and deletions)
happen at once, its writes are deferred until the next event of the same frame
(calls of local functions made by the statement run in between)."""
import ast

from mc import observe


class SeqRecorder(observe.Recorder):
  """Recorder that also keeps one global, ordered event sequence."""

  def reset(self):
    self.traces = []
    self.seq = []

  def begin(self, fn_id):
    tr = observe.Trace(fn_id)
    self.traces.append(tr)
    self.seq.append((tr, 'begin', fn_id))
    return tr

  def p(self, tr, i):
    tr.events.append(i)
    self.seq.append((tr, 'node', i))

  def pe(self, tr, i, v):
    tr.events.append(i)
    self.seq.append((tr, 'node', i))
    return v

  def pi(self, tr, i, v):
    it = iter(v)
    while True:
      tr.events.append(i)
      self.seq.append((tr, 'node', i))
      try:
        x = next(it)
      except StopIteration:
        return
      self.seq.append((tr, 'target', i))
      yield x

  def prop(self, tr):
    if not tr.prop:
      tr.prop = True
      tr.events.append('PROP')
    self.seq.append((tr, 'prop', None))


def names_in(node, skip_targets=False):
  """Name nodes of an expression/statement in evaluation-relevant grouping,
  not descending into nested function/lambda bodies."""
  loads, stores, dels = [], [], []
  stack = [node]
  while stack:
    n = stack.pop()
    if isinstance(n, ast.Name):
      if isinstance(n.ctx, ast.Load):
        loads.append(n)
      elif isinstance(n.ctx, ast.Store):
        stores.append(n)
      else:
        dels.append(n)
      continue
    if isinstance(n, (ast.FunctionDef, ast.Lambda, ast.ClassDef)) and n is not node:
      continue
    stack.extend(ast.iter_child_nodes(n))
  return loads, stores, dels


class Access(object):
  __slots__ = ('idx', 'var', 'kind', 'tr', 'cfg_node', 'name_node', 'in_nested')

  def __init__(self, idx, var, kind, tr, cfg_node, name_node, in_nested):
    self.idx = idx
    self.var = var
    self.kind = kind          # 'r' read, 'w' write, 'd' delete
    self.tr = tr
    self.cfg_node = cfg_node
    self.name_node = name_node  # ast.Name, ast.arg, ast.FunctionDef or None
    self.in_nested = in_nested  # access performed by a nested function's frame


def stmt_accesses(a):
  """(loads, deferred stores [(name, node)], dels) of the AST node behind a CFG node."""
  if isinstance(a, ast.arguments):
    args = list(a.posonlyargs) + list(a.args) + list(a.kwonlyargs)
    if a.vararg:
      args.append(a.vararg)
    if a.kwarg:
      args.append(a.kwarg)
    return [], [(x.arg, x) for x in args], []
  if isinstance(a, ast.FunctionDef):
    return [], [(a.name, a)], []
  if isinstance(a, ast.ClassDef):
    return [], [(a.name, a)], []
  if isinstance(a, ast.AugAssign):
    loads, stores, dels = names_in(a.value)
    tl, ts, _ = names_in(a.target)
    extra = []
    if isinstance(a.target, ast.Name):
      extra = [a.target]  # the target is read as well
    return loads + tl + extra, [(n.id, n) for n in ts], dels
  if isinstance(a, ast.withitem):
    loads, _, _ = names_in(a.context_expr)
    st = []
    if a.optional_vars is not None:
      _, s2, _ = names_in(a.optional_vars)
      st = [(n.id, n) for n in s2]
    return loads, st, []
  if isinstance(a, (ast.Global, ast.Nonlocal, ast.Pass, ast.Break, ast.Continue)):
    return [], [], []
  loads, stores, dels = names_in(a)
  return loads, [(n.id, n) for n in stores], dels


def build(seq, rev, top_fn_of_trace, for_targets, entry_node_of_fn):
  """seq: SeqRecorder.seq; rev: id -> cfg node; top_fn_of_trace(tr) -> bool (True for the outermost function);
  for_targets: header ast node -> target expression.
  Returns (accesses, events) where events = [(tr, cfg_node, access position after flushing)]."""
  acc = []
  events = []
  pending = {}

  def emit(var, kind, tr, node, nn):
    acc.append(Access(len(acc), var, kind, tr, node, nn, not top_fn_of_trace(tr)))

  def flush(tr):
    p = pending.pop(id(tr), None)
    if p:
      node, writes = p
      for name, nn in writes:
        emit(name, 'w', tr, node, nn)

  for tr, kind, i in seq:
    if kind == 'node':
      flush(tr)
      node = rev[i]
      events.append((tr, node, len(acc)))
      loads, stores, dels = stmt_accesses(node.ast_node)
      for n in loads:
        emit(n.id, 'r', tr, node, n)
      for n in dels:
        emit(n.id, 'd', tr, node, n)
      pending[id(tr)] = (node, stores)
    elif kind == 'begin':
      node = entry_node_of_fn(i)
      _, stores, _ = stmt_accesses(node.ast_node)
      events.append((tr, node, len(acc)))
      for name, nn in stores:
        emit(name, 'w', tr, node, nn)
    elif kind == 'target':
      node = rev[i]
      _, stores, _ = names_in(for_targets[node.ast_node])
      for n in stores:
        emit(n.id, 'w', tr, node, n)
    elif kind == 'prop':
      # An exception is propagating through a finally block: everything from here
      # on is documented as unmodelled (exempt); the log is cut at this point.
      break
  return acc, events
