"""C12 - errors in converted code are reported at the original source location.

Programs: skeleton with one failing statement x failure kind x callee chain
(converted / do_not_convert / lambda / decorated callees, call sites nested in
control flow).  Oracle: traceback.extract_tb of the unconverted call."""
import ast
import itertools
import sys
import traceback

from mc import diff
from mc import progspace as ps
from mc import tape as tapemod
from mc import util

ID = 'C12'
LEVEL = 'exploration'
RULE = ('programs = innermost skeleton (every statement list over {call, FAIL, if, while, for, with, try/finally} with exactly one '
        'failing statement, up to the size bound) x 10 failure kinds x callee chains up to depth 3 over {converted, '
        'do_not_convert, lambda, decorated, decorated by a multi-line decorator call, wrapped by a functools.wraps closure} x call-site nesting {plain, in if, in for}; executions = all tapes on which the '
        'original raises; distinct_nontrivial = distinct programs whose original raises on some tape')
ASSUMPTIONS = ['message = substring containment of the original str(e)',
               'extra non-user frames (operator implementations) may sit between user frames of translated_stack',
               'one statement per source line; all functions of a program live in one synthetic file']

FAILS = {
    'raise_value': ("raise ValueError('boom %d')", 'ValueError'),
    'raise_key': ("raise KeyError('key%d')", 'KeyError'),
    'raise_user': ("raise UE('user %d')", 'UE'),
    'raise_custom': ("raise UC('custom %d', 2)", 'UC'),
    'raise_custom_value': ("raise UCV('customvalue %d', 2)", 'UCV'),
    'int_x': ("int('x%d')", 'ValueError'),
    'dict_key': ("{}['k%d']", 'KeyError'),
    'index': ('[][%d]', 'IndexError'),
    'zerodiv': ('%d // 0', 'ZeroDivisionError'),
    'none_add': ('None + %d', 'TypeError'),
    'none_attr': ('None.a%d', 'AttributeError'),
}
M = ps.Menu
INNER = M('c12', ('S', 'FAIL'), ('if', 'ifelse', 'while', 'for', 'with', 'tryfin'), vars_=(), ret=(None,))
# the failing statement sits in a local function of the innermost callee (its frame must be reported under its own name)
NESTED = M('c12n', ('S', 'FAIL', 'CALLG'), ('if', 'for', 'def'), vars_=(), ret=(None,))
CHAIN_KINDS = ('conv', 'dnc', 'lam', 'deco', 'wraps', 'decoml')
NEST = ('plain', 'if', 'for')
_S = {'tier': 'quick'}


def setup(tier, seed):
  _S['tier'] = tier


def count_fail(b):
  n = 0
  for s in b:
    if s[0] == 'FAIL':
      n += 1
    for part in s[1:]:
      if isinstance(part, tuple) and part and isinstance(part[0], tuple):
        n += count_fail(part)
  return n


def skeletons(maxn):
  for n in range(1, maxn + 1):
    for b in ps.blocks(n, INNER):
      if count_fail(b) == 1:
        yield b
  for n in range(3, maxn + 2):
    for b in ps.blocks(n, NESTED):
      # local function first, holding the failing statement, and called afterwards
      if (count_fail(b) == 1 and b[0][0] == 'def' and count_fail(b[:1]) == 1 and ps.contains_kind(b[1:], ('CALLG',)) is not None and
          c01_has(b[1:], 'CALLG') and not c01_has(b[:1], 'CALLG') and sum(1 for s in b if s[0] == 'def') == 1 and not c01_has(b[1:], 'def')):
        yield b


def c01_has(body, kind):
  for st in body:
    if st[0] == kind:
      return True
    for part in st[1:]:
      if isinstance(part, tuple) and part and isinstance(part[0], tuple) and c01_has(part, kind):
        return True
  return False


def chains(maxlen):
  for n in range(0, maxlen + 1):
    for ks in itertools.product(CHAIN_KINDS, repeat=n):
      for ns in itertools.product(NEST, repeat=n):
        yield tuple(zip(ks, ns))


def items(tier, seed):
  fk = sorted(FAILS)
  if tier == 'quick':
    plan = [(fk, 2, 1), (('raise_value', 'dict_key', 'raise_custom'), 3, 1), (('raise_value', 'none_add'), 1, 2)]
  else:
    plan = [(fk, 3, 1), (fk, 2, 2), (('raise_value', 'dict_key', 'raise_custom'), 4, 1), (('raise_value', 'none_add'), 1, 3)]
  seen = set()
  for kinds, sk, cl in plan:
    for b in skeletons(sk):
      for ch in chains(cl):
        for k in kinds:
          it = (k, b, ch)
          if it in seen:
            continue
          seen.add(it)
          yield it


class Rend(ps.Render):
  def __init__(self, fail_src):
    ps.Render.__init__(self)
    self.fail_src = fail_src
    self.fail_line = None

  def stmt(self, s, ind):
    if s[0] == 'FAIL':
      self.emit(ind, self.fail_src % self.new())
      self.fail_line = len(self.lines)
    else:
      ps.Render.stmt(self, s, ind)


def render(item, pid=0):
  kind, body, chain = item
  r = Rend(FAILS[kind][0])
  names = ['f'] + ['g%d' % (i + 1) for i in range(len(chain))]
  if any(k == 'wraps' for k, _ in chain):
    # a decorator of the program itself whose wrapper (a closure carrying __wrapped__) is user code as well
    r.emit(0, 'def wraps_deco(fn):')
    r.emit(1, '@functools.wraps(fn)')
    r.emit(1, 'def inner(a):')
    r.emit(2, 't(%d)' % r.new())
    r.emit(2, 'return fn(a)')
    r.emit(1, 'return inner')
    r.emit(0, '')
  # functions are emitted outermost first; names[i] calls names[i+1]
  for i, name in enumerate(names):
    last = i == len(names) - 1
    ckind = 'conv' if i == 0 else chain[i - 1][0]
    params = 'zo, d' if i == 0 else 'a'
    if ckind == 'lam' and not last:
      r.emit(0, '%s = lambda a: %s(a)' % (name, names[i + 1]))
      continue
    if ckind == 'dnc':
      r.emit(0, '@dnc')
    if ckind == 'deco':
      r.emit(0, '@ident_deco')
    if ckind == 'wraps':
      r.emit(0, '@wraps_deco')
    if ckind == 'decoml':
      # a decorator call spanning several lines, then a comment line before the def
      r.emit(0, '@ident_deco_args(')
      r.emit(1, '1,')
      r.emit(1, '2)')
      r.emit(0, '# a comment between the decorator and the def')
    if ckind == 'lam' and last:
      # a lambda cannot hold statements: it calls a plain helper holding the skeleton
      r.emit(0, '%s = lambda a: %s_body(a)' % (name, name))
      name = name + '_body'
    r.emit(0, 'def %s(%s):' % (name, params))
    r.emit(1, 't(%d)' % r.new())
    if last:
      r.block(body, 1)
      r.emit(1, 'return %d' % pid)
    else:
      nest = chain[i][1]
      call = 'x = %s(%d)' % (names[i + 1], r.new())
      if nest == 'plain':
        r.emit(1, call)
      elif nest == 'if':
        r.emit(1, 'if c(%d):' % r.new())
        r.emit(2, call)
        r.emit(1, 'else:')
        r.emit(2, 'x = 0')
      else:
        r.emit(1, 'for i in it(%d):' % r.new())
        r.emit(2, call)
      r.emit(1, 'return %d' % pid)
    r.emit(0, '')
  src = '\n'.join(r.lines) + '\n'
  return src


class UE(Exception):
  pass


class UC(Exception):
  def __init__(self, msg, code):
    Exception.__init__(self, msg)
    self.code = code


class UCV(ValueError):
  def __init__(self, msg, code):
    ValueError.__init__(self, msg)
    self.code = code


def ident_deco(fn):
  return fn


def ident_deco_args(*args):
  return ident_deco


def user_frames(tb, fname):
  return [(fr.name, fr.lineno) for fr in traceback.extract_tb(tb) if fr.filename == fname]


def expected_type(e0):
  from malt.impl import api
  from malt.pyct import error_utils
  t = type(e0)
  if t.__init__ is Exception.__init__ or t in error_utils.KNOWN_STRING_CONSTRUCTOR_ERRORS or t is KeyError:
    return t
  return api.StagingError


def run_item(item, pid, drop_metadata=False):
  import malt
  from malt.impl import api
  api._TRANSPILER = api.PyToPy()
  src = render(item, pid)
  smaps = {}
  orig_conv = api._convert_actual

  def conv(entity, ctx):
    r = orig_conv(entity, ctx)
    try:
      smaps[r.__code__.co_filename] = r.ag_source_map
    except AttributeError:
      pass
    return r
  api._convert_actual = conv
  import functools
  extra = {'UE': UE, 'UC': UC, 'UCV': UCV, 'ident_deco': ident_deco, 'ident_deco_args': ident_deco_args, 'functools': functools, 'dnc': malt.experimental.do_not_convert}
  h = diff.Harness(src, pid, extra_globals=extra)
  fname = h.fname
  viol = []
  outcomes = []
  nraise = [0]
  site_line = {}
  for i, line in enumerate(src.splitlines(), 1):
    s = line.strip()
    if s.startswith('t(') and s.endswith(')') and s[2:-1].isdigit():
      site_line[int(s[2:-1])] = i
  smap_bad = []

  def t_probe(site, *vals):
    # locate the generated frame that called t and check the source map entry of that line
    fr = sys._getframe(1)
    depth = 0
    while fr is not None and depth < 12:
      fn_ = fr.f_code.co_filename
      if fn_ == fname:
        break   # t was called from unconverted user code (do_not_convert callee): nothing to map
      if '__autograph_generated_file' in fn_:
        sm = smaps.get(fn_)
        if sm is not None and site in site_line:
          key = [k for k in sm if k.filename == fn_ and k.lineno == fr.f_lineno]
          if not key:
            smap_bad.append('generated line %s:%d (call of t(%d)) has no source map entry' % (fn_[-20:], fr.f_lineno, site))
          else:
            o = sm[key[0]]
            if o.loc.filename != fname or o.loc.lineno != site_line[site]:
              smap_bad.append('generated line of t(%d) maps to %s:%d, the statement is at line %d' % (
                  site, o.loc.filename, o.loc.lineno, site_line[site]))
        break
      fr = fr.f_back
      depth += 1
    return h.env.t(site, *vals)
  h.g['t'] = malt.experimental.do_not_convert(t_probe)
  wrapped = malt.convert(recursive=True)(h.f)
  nexec = 0
  try:
    def call(fn):
      try:
        fn(tapemod.Obj(), {'k': 8})
        return None
      except Exception as e:  # pylint:disable=broad-except
        return e

    def run_ref():
      return call(h.f)

    def on_exec(tp, asked, e0):
      outcomes.append((tp, type(e0).__name__ if e0 is not None else None))
      h.env.reset(tp)
      del smap_bad[:]
      e1 = call(wrapped)
      if smap_bad and not any(v[0] == 'source-map' for v in viol):
        viol.append(('source-map', smap_bad[0], tp))
      if e0 is None:
        if e1 is not None and not any(v[0] == 'spurious-error' for v in viol):
          viol.append(('spurious-error', 'original returns, converted raises %s: %s' % (type(e1).__name__, str(e1)[:200]), tp))
        return
      nraise[0] += 1
      if e1 is None:
        viol.append(('no-error', 'original raises %s, converted returns' % type(e0).__name__, tp))
        return
      if drop_metadata and hasattr(e1, 'ag_error_metadata'):
        ts = e1.ag_error_metadata.translated_stack
        e1.ag_error_metadata.translated_stack = ts[1:] if len(ts) > 1 else ()
      kinds = set(v[0] for v in viol)
      want = expected_type(e0)
      ok_type = isinstance(e1, want) if want is KeyError else type(e1) is want
      if not ok_type and 'type' not in kinds:
        viol.append(('type', 'original raises %s, convert() wrapper raises %s (expected %s): %s' % (
            type(e0).__name__, type(e1).__name__, want.__name__, str(e1)[:160]), tp))
      if str(e0) not in str(e1) and 'message' not in kinds:
        viol.append(('message', 'original message %r not contained in %r' % (str(e0), str(e1)[:300]), tp))
      md = getattr(e1, 'ag_error_metadata', None)
      U = list(reversed(user_frames(e0.__traceback__, fname)))   # innermost first
      if md is None:
        if 'metadata' not in kinds:
          viol.append(('metadata', 'exception from the convert() wrapper carries no ag_error_metadata', tp))
        return
      T = [(fi.function_name, fi.lineno, fi.is_converted) for fi in md.translated_stack if fi.filename == fname]
      if not T:
        if 'stack-empty' not in kinds:
          viol.append(('stack-empty', 'translated stack names no frame of the user file (original innermost frame %r)' % (U[0],), tp))
        return
      if (T[0][0], T[0][1]) != (normalize_name(U[0][0]), U[0][1]) and (T[0][0], T[0][1]) != U[0] and 'innermost' not in kinds:
        viol.append(('innermost', 'reported location %s:%d, the failing statement is at %s:%d (`%s`)' % (
            T[0][0], T[0][1], U[0][0], U[0][1], src.splitlines()[U[0][1] - 1].strip()), tp))
      # every further entry is a frame of the original traceback, same order
      j = 0
      for (fn_, ln, conv_) in T:
        while j < len(U) and U[j][1] != ln:
          j += 1
        if j >= len(U):
          if 'foreign-frame' not in kinds:
            viol.append(('foreign-frame', 'translated stack entry %s:%d (`%s`) is not a frame of the original traceback %s (or out of order)' % (
                fn_, ln, src.splitlines()[ln - 1].strip() if 0 < ln <= len(src.splitlines()) else '?', U), tp))
          break
        j += 1
      # one entry per separately converted function on the call path
      nconv = converted_on_path(item)
      got_conv = sum(1 for x in T if x[2])
      if got_conv != nconv and 'converted-count' not in kinds:
        viol.append(('converted-count', '%d converted frames listed %s, %d converted functions are on the call path' % (got_conv, T, nconv), tp))
    nexec, _, _ = tapemod.explore(h.env, run_ref, on_exec, dev=3)
  finally:
    api._convert_actual = orig_conv
    h.close()
  return src, viol, nexec, outcomes, nraise[0]


def normalize_name(n):
  return n


def converted_on_path(item):
  """f is converted; callees are converted until the first do_not_convert callee (everything below runs unconverted)."""
  n = 1
  for kind, _ in item[2]:
    if kind == 'dnc':
      break
    n += 2 if kind == 'wraps' else 1    # the functools.wraps closure and the function it wraps
    # the body helper of an innermost lambda is a further converted function
  if item[2] and item[2][-1][0] == 'lam' and all(k != 'dnc' for k, _ in item[2]):
    n += 1
  return n


def stable_id(item):
  import hashlib
  return int(hashlib.sha1(repr(item).encode()).hexdigest()[:6], 16) + 1000


def check(item):
  src, viol, nexec, outcomes, nraise = run_item(item, stable_id(item))
  out = []
  for kind, msg, tp in viol:
    sig = '%s|fail=%s|chain=%s|%s' % (kind, item[0], '>'.join('%s@%s' % c for c in item[2]), ps.skeleton(item[1]))
    out.append(util.V(sig, '%s on tape %s: %s\nprogram:\n%s' % (kind, list(tp), msg, src), item, source=src, tape=list(tp)))
  return {'viol': out, 'n': {'evaluations': max(1, nexec), 'programs': 1, 'executions': nexec, 'raising_executions': nraise},
          'outcome': repr(outcomes), 'nontrivial': src if nraise else None, 'sample': {'source': src, 'raising_tapes': nraise}}


def exhaustive(tier, n):
  return True


def _canary():
  v = run_item(('raise_value', (('FAIL',),), (('conv', 'plain'),)), 4243, drop_metadata=True)[1]
  return any(k[0] in ('innermost', 'converted-count', 'stack-empty') for k in v)


CANARIES = [('oracle_fires_when_the_innermost_frame_is_dropped', _canary)]
