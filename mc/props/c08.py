"""C08 - scope (activity) analysis matches Python's own binding rules.

Programs: exhaustive enumeration of scope trees (def / lambda / class /
comprehension nesting) x binding constructs per scope.  Oracles: CPython's
symtable (what each function binds / declares / takes as parameters / closes
over) and CPython's compiler (per statement line: names loaded, stored and
deleted by the bytecode of that line)."""
import ast
import dis
import symtable

from mc import util

ID = 'C08'
LEVEL = 'exploration'
RULE = ('scope trees = every list of up to N binding/reading constructs (assign, augassign, read, del, global, nonlocal, '
        'import, import-as, with-as, except-as, for target, attribute/subscript target, slice bounds, tuple index, slice store, f-string format spec, walrus, annotated assignment, '
        'comprehension, nested def with each parameter kind / default / annotation / decorator, lambda, class) over the names '
        '{a, b}, nested to depth 3 (slices / tuple indices / format specs / keyword-only defaults only in lists of up to 3); programs that CPython rejects are skipped; oracle = symtable per function scope and the '
        'bytecode of each statement line; distinct_nontrivial = distinct accepted programs with a nested scope')
ASSUMPTIONS = ['comprehension targets and except-clause names are excluded (property text)',
               'free variables compared on the closure part only: names CPython reports free must be in read - bound, and '
               'nothing CPython reports local may be in read - bound',
               '"actually reads/rebinds" is taken from the bytecode CPython generates for the statement line']

NAMES = ('a', 'b')
SIMPLE = ('assign', 'aug', 'read', 'del', 'global', 'nonlocal', 'import', 'importas', 'fromimport', 'withas', 'exceptas',
          'for', 'attr', 'sub', 'walrus', 'annassign', 'anndecl', 'compt', 'compr', 'compself', 'tuple', 'slice', 'tupidx', 'slicestore', 'fspec', 'subcomp', 'delsubcomp')
PARAMS = ('pos', 'posonly', 'vararg', 'kwonly', 'kwarg', 'default', 'kwdefault', 'anno', 'deco', 'none')
_S = {'tier': 'quick'}
MAXN = {'quick': 3, 'thorough': 4}


def setup(tier, seed):
  _S['tier'] = tier


def stmts(k, d):
  """All constructs with exactly k nodes."""
  if k == 1:
    for kind in SIMPLE:
      for n in NAMES:
        yield (kind, n)
    for n in NAMES:
      yield ('lamr', n)
      yield ('lamp', n)
    return
  if d <= 0:
    return
  m = k - 1
  for b in blocks(m, d - 1):
    for pk in PARAMS:
      for n in (NAMES if pk != 'none' else ('',)):
        yield ('def', pk, n, b)
    yield ('class', b)
    yield ('if', b)


def blocks(n, d):
  if n == 0:
    yield ()
    return
  for k in range(1, n + 1):
    for s in stmts(k, d):
      for rest in blocks(n - k, d):
        yield (s,) + rest


ROUND2_KINDS = ('slice', 'tupidx', 'slicestore', 'fspec', 'subcomp', 'delsubcomp')


def _uses_round2(b):
  for s in b:
    if s[0] in ROUND2_KINDS or (s[0] == 'def' and s[1] == 'kwdefault'):
      return True
    if s[0] in ('def', 'class', 'if') and _uses_round2(s[-1]):
      return True
  return False


def items(tier, seed):
  for n in range(1, MAXN[tier] + 1):
    for b in blocks(n, 3):
      # the constructs added later (slices, tuple indices, format specs, keyword-only defaults) are enumerated up to 3 nodes
      if n >= 4 and _uses_round2(b):
        continue
      yield b


def render(body):
  lines = ['def f(p):']
  emit(body, 1, lines, [0])
  lines.append('    return p')
  return '\n'.join(lines) + '\n'


def emit(body, ind, lines, ctr):
  pad = '    ' * ind
  if not body:
    lines.append(pad + 'pass')
  # declarations first keeps more programs valid; their relative order is kept
  for s in body:
    k = s[0]
    n = s[1] if len(s) > 1 and isinstance(s[1], str) else ''
    ctr[0] += 1
    c = ctr[0]
    if k == 'assign':
      lines.append(pad + '%s = %d' % (n, c))
    elif k == 'aug':
      lines.append(pad + '%s += %d' % (n, c))
    elif k == 'read':
      lines.append(pad + 'u(%s)' % n)
    elif k == 'del':
      lines.append(pad + 'del %s' % n)
    elif k == 'global':
      lines.append(pad + 'global %s' % n)
    elif k == 'nonlocal':
      lines.append(pad + 'nonlocal %s' % n)
    elif k == 'import':
      lines.append(pad + 'import %s' % n)
    elif k == 'importas':
      lines.append(pad + 'import os.path as %s' % n)
    elif k == 'fromimport':
      lines.append(pad + 'from os import path as %s' % n)
    elif k == 'withas':
      lines.append(pad + 'with u() as %s:' % n)
      lines.append(pad + '    pass')
    elif k == 'exceptas':
      lines.append(pad + 'try:')
      lines.append(pad + '    pass')
      lines.append(pad + 'except E as %s:' % n)
      lines.append(pad + '    pass')
    elif k == 'for':
      lines.append(pad + 'for %s in u():' % n)
      lines.append(pad + '    pass')
    elif k == 'attr':
      lines.append(pad + '%s.attr = %d' % (n, c))
    elif k == 'sub':
      lines.append(pad + '%s[0] = %d' % (n, c))
    elif k == 'subcomp':
      lines.append(pad + '%s[p + 1] = %d' % (n, c))
    elif k == 'delsubcomp':
      lines.append(pad + 'del %s[p + 1]' % n)
    elif k == 'fspec':
      lines.append(pad + "u(f'{p:>{%s}}')" % n)
    elif k == 'slice':
      lines.append(pad + 'u(p[%s:%s:%s])' % (n, n, n))
    elif k == 'tupidx':
      lines.append(pad + 'u(p[%s, 0])' % n)
    elif k == 'slicestore':
      lines.append(pad + 'p[1:%s] = ()' % n)
    elif k == 'walrus':
      lines.append(pad + 'u((%s := %d))' % (n, c))
    elif k == 'annassign':
      lines.append(pad + '%s: T = %d' % (n, c))
    elif k == 'anndecl':
      lines.append(pad + '%s: T' % n)
    elif k == 'compt':
      lines.append(pad + 'u([%s for %s in v()])' % (n, n))
    elif k == 'compr':
      lines.append(pad + 'u([%s for w in %s])' % (n, n))
    elif k == 'compself':
      lines.append(pad + 'u([%s for %s in %s])' % (n, n, n))
    elif k == 'tuple':
      lines.append(pad + '%s, q%d = u()' % (n, c))
    elif k == 'lamr':
      lines.append(pad + 'u(lambda: %s)' % n)
    elif k == 'lamp':
      lines.append(pad + 'u(lambda %s: %s)' % (n, n))
    elif k == 'def':
      pk, n, b = s[1], s[2], s[3]
      sig = {'pos': '%s' % n, 'posonly': '%s, /' % n, 'vararg': '*%s' % n, 'kwonly': '*, %s' % n, 'kwarg': '**%s' % n,
             'default': 'z=%s' % n, 'kwdefault': '*, z=%s' % n, 'anno': 'z: %s' % n, 'deco': '', 'none': ''}[pk]
      if pk == 'deco':
        lines.append(pad + '@%s' % n)
      lines.append(pad + 'def g%d(%s):' % (c, sig))
      emit(b, ind + 1, lines, ctr)
    elif k == 'class':
      lines.append(pad + 'class K%d:' % c)
      emit(s[1], ind + 1, lines, ctr)
    elif k == 'if':
      lines.append(pad + 'if u():')
      emit(s[1], ind + 1, lines, ctr)
    else:
      raise ValueError(s)


def sym_tables(src):
  """(type, name, lineno) -> symtable for every function/lambda table."""
  out = {}

  def walk(t):
    for c in t.get_children():
      if c.get_type() in ('function', symtable.SymbolTableType.FUNCTION if hasattr(symtable, 'SymbolTableType') else 'function'):
        out[(c.get_name(), c.get_lineno())] = c
      walk(c)
  walk(symtable.symtable(src, '<c08>', 'exec'))
  return out


def comp_targets(fn_node):
  out = set()
  for n in walk_scope(fn_node):
    if isinstance(n, ast.comprehension):
      for x in ast.walk(n.target):
        if isinstance(x, ast.Name):
          out.add(x.id)
  return out


def except_names(fn_node):
  return set(n.name for n in walk_scope(fn_node) if isinstance(n, ast.ExceptHandler) and n.name)


def walk_scope(fn_node):
  """AST nodes of a function's own scope (not descending into nested functions / lambdas / classes)."""
  if isinstance(fn_node, ast.Lambda):
    stack = [fn_node.body]
  else:
    stack = list(fn_node.body)
  while stack:
    n = stack.pop()
    yield n
    if isinstance(n, (ast.FunctionDef, ast.Lambda, ast.ClassDef)):
      continue
    stack.extend(ast.iter_child_nodes(n))


def line_names(code, acc=None):
  """line -> (loads, stores, deletes) from the bytecode (recursing into nested code objects)."""
  if acc is None:
    acc = {}
  for ins in dis.get_instructions(code):
    ln = ins.positions.lineno if ins.positions else None
    if ln is None:
      continue
    op = ins.opname
    name = ins.argval
    slot = acc.setdefault(ln, (set(), set(), set()))
    if op in ('LOAD_FAST', 'LOAD_NAME', 'LOAD_GLOBAL', 'LOAD_DEREF', 'LOAD_FAST_CHECK', 'LOAD_CLASSDEREF', 'LOAD_FROM_DICT_OR_DEREF',
              'LOAD_FROM_DICT_OR_GLOBALS'):
      if isinstance(name, str):
        slot[0].add(name)
    elif op in ('STORE_FAST', 'STORE_NAME', 'STORE_GLOBAL', 'STORE_DEREF'):
      slot[1].add(name)
    elif op in ('DELETE_FAST', 'DELETE_NAME', 'DELETE_GLOBAL', 'DELETE_DEREF'):
      slot[2].add(name)
  for c in code.co_consts:
    # lambdas / non-inlined comprehensions share the line of their statement but are scopes of their own
    if hasattr(c, 'co_code') and not c.co_name.startswith('<'):
      line_names(c, acc)
  return acc


def simple_names(qns):
  return set(str(q) for q in qns if not q.is_composite())


def analyse(src):
  from malt.pyct import anno, naming, qual_names, transformer
  from malt.pyct.static_analysis import activity, annos
  tree = ast.parse(src)
  fn = tree.body[0]
  info = transformer.EntityInfo(name='f', source_code=src, source_file=None, future_features=(), namespace={})
  ctx = transformer.Context(info, naming.Namer({}), None)
  qual_names.resolve(fn)
  activity.resolve(fn, ctx, None)
  return tree, fn, anno, annos


def check_src(src):
  viol = []
  tree, fn, anno, annos = analyse(src)
  tables = sym_tables(src)
  nscopes = 0
  for node in ast.walk(fn):
    if not isinstance(node, (ast.FunctionDef, ast.Lambda)):
      continue
    key = (node.name if isinstance(node, ast.FunctionDef) else 'lambda', node.lineno)
    st = tables.get(key)
    if st is None:
      viol.append(('harness', 'no symtable for %r' % (key,)))
      continue
    nscopes += 1
    sc = anno.getanno(node, annos.NodeAnno.ARGS_AND_BODY_SCOPE)
    args_sc = anno.getanno(node.args, anno.Static.SCOPE)
    excl = comp_targets(node) | except_names(node)
    syms = {s.get_name(): s for s in st.get_symbols()}
    where = '%s at line %d' % key
    # --- locals
    py_local = set(n for n, s in syms.items() if s.is_local()) - excl
    m_local = simple_names(sc.bound - sc.globals - sc.nonlocals) - excl
    if py_local != m_local:
      viol.append(('locals', '%s: CPython binds %s locally, analysis reports %s' % (where, sorted(py_local), sorted(m_local))))
    # --- declared global / nonlocal
    py_g = set(n for n, s in syms.items() if s.is_declared_global())
    if py_g != simple_names(sc.globals):
      viol.append(('globals', '%s: declared global %s, analysis reports %s' % (where, sorted(py_g), sorted(simple_names(sc.globals)))))
    py_n = set(n for n, s in syms.items() if s.is_nonlocal())
    if py_n != simple_names(sc.nonlocals):
      viol.append(('nonlocals', '%s: declared nonlocal %s, analysis reports %s' % (where, sorted(py_n), sorted(simple_names(sc.nonlocals)))))
    # --- parameters
    py_p = set(n for n, s in syms.items() if s.is_parameter())
    m_p = set(str(q) for q in args_sc.params.keys())
    if py_p != m_p:
      viol.append(('params', '%s: parameters %s, analysis reports %s' % (where, sorted(py_p), sorted(m_p))))
    # --- free variables (closure part)
    m_free = simple_names(sc.read - sc.bound)
    py_free = set(n for n, s in syms.items() if s.is_free() and not s.is_nonlocal()) - excl
    if not py_free <= m_free:
      viol.append(('free-missing', '%s: CPython closes over %s, analysis read - bound = %s' % (where, sorted(py_free), sorted(m_free))))
    wrong = set(n for n in m_free if n in syms and syms[n].is_local()) - excl
    if wrong:
      viol.append(('free-spurious', '%s: %s reported free (read - bound) but CPython binds them locally' % (where, sorted(wrong))))
  # --- per statement: bytecode reads / writes / deletes vs. the statement's scope
  code = compile(src, '<c08>', 'exec')
  byline = line_names(code)
  nstmts = 0
  handler_lines = set()
  for n in ast.walk(fn):
    if isinstance(n, ast.ExceptHandler):
      handler_lines.add(n.lineno)
  for node, owner in scoped_nodes(fn):
    if not anno.hasanno(node, anno.Static.SCOPE):
      continue
    ln = getattr(node, 'lineno', None)
    if isinstance(node, ast.withitem):
      ln = node.context_expr.lineno
    if ln is None or ln in handler_lines or ln not in byline:
      continue
    if isinstance(node, ast.FunctionDef):
      # the def statement itself evaluates its decorators and default values in the enclosing scope
      sc = anno.getanno(node, anno.Static.SCOPE)
      evaluated = list(node.decorator_list) + list(node.args.defaults) + [d for d in node.args.kw_defaults if d is not None]
      want = set(x.id for e in evaluated for x in ast.walk(e) if isinstance(x, ast.Name) and isinstance(x.ctx, ast.Load))
      nstmts += 1
      miss = want - simple_names(sc.read)
      if miss:
        viol.append(('stmt-read', 'line %d `%s`: the def statement evaluates %s (decorators / defaults) in the enclosing scope, not in its read set %s' % (
            ln, src.splitlines()[ln - 1].strip(), sorted(miss), sorted(simple_names(sc.read)))))
      continue
    if isinstance(node, (ast.FunctionDef, ast.ClassDef, ast.Lambda)) or has_multiline(node):
      continue
    sc = anno.getanno(node, anno.Static.SCOPE)
    loads, stores, dels = byline[ln]
    excl = comp_targets_stmt(node) | {'__class__', '__classdict__', '__annotations__', '.0'}
    nstmts += 1
    r = simple_names(sc.read) | set(str(q.qn[0]) if False else str(q) for q in ())
    # names loaded by the part of the statement that runs in the enclosing scope (outside comprehension
    # bodies, plus the first iterable of each comprehension) are reads even if they are also targets
    miss = loads - simple_names(sc.read) - (excl - outer_reads(node))
    # the bytecode of `x: T = 1` in a function does not evaluate T; defaults/decorators are on other lines
    if miss:
      viol.append(('stmt-read', 'line %d `%s`: bytecode loads %s, not in the statement\'s read set %s' % (
          ln, src.splitlines()[ln - 1].strip(), sorted(miss), sorted(simple_names(sc.read)))))
    # PEP 709 inlining saves/restores every name used inside a comprehension with STORE_FAST: artefacts
    excl = excl | comp_inner_names(node)
    missw = stores - simple_names(sc.modified) - excl
    if missw:
      viol.append(('stmt-write', 'line %d `%s`: bytecode stores %s, not in the statement\'s modified set %s' % (
          ln, src.splitlines()[ln - 1].strip(), sorted(missw), sorted(simple_names(sc.modified)))))
    missd = dels - simple_names(sc.deleted) - excl
    if missd:
      viol.append(('stmt-delete', 'line %d `%s`: bytecode deletes %s, not in the statement\'s deleted set %s' % (
          ln, src.splitlines()[ln - 1].strip(), sorted(missd), sorted(simple_names(sc.deleted)))))
  return viol, nscopes, nstmts


def has_multiline(node):
  return getattr(node, 'end_lineno', None) not in (None, getattr(node, 'lineno', None))


def comp_targets_stmt(node):
  out = set()
  for n in ast.walk(node):
    if isinstance(n, ast.comprehension):
      for x in ast.walk(n.target):
        if isinstance(x, ast.Name):
          out.add(x.id)
  return out


def outer_reads(node):
  out = set()
  stack = [node]
  while stack:
    n = stack.pop()
    if isinstance(n, ast.Name) and isinstance(n.ctx, ast.Load):
      out.add(n.id)
    elif isinstance(n, (ast.ListComp, ast.SetComp, ast.DictComp, ast.GeneratorExp)):
      stack.append(n.generators[0].iter)
      continue
    elif isinstance(n, (ast.Lambda, ast.FunctionDef, ast.ClassDef)):
      continue
    stack.extend(ast.iter_child_nodes(n))
  return out


def comp_inner_names(node):
  out = set()
  for n in ast.walk(node):
    if isinstance(n, (ast.ListComp, ast.SetComp, ast.DictComp, ast.GeneratorExp)):
      for x in ast.walk(n):
        if isinstance(x, ast.Name):
          out.add(x.id)
  return out


def scoped_nodes(fn):
  """(node, owner function) for statement-level nodes carrying a SCOPE annotation."""
  for n in ast.walk(fn):
    if isinstance(n, (ast.Assign, ast.AugAssign, ast.AnnAssign, ast.Expr, ast.Delete, ast.Import, ast.ImportFrom, ast.Return,
                      ast.withitem)):
      yield n, None
    elif isinstance(n, ast.For):
      yield n.iter, None
    elif isinstance(n, (ast.If, ast.While)):
      yield n.test, None
    elif isinstance(n, ast.FunctionDef) and n is not fn:
      yield n, None


def check(item):
  src = render(item)
  try:
    compile(src, '<c08>', 'exec')
  except SyntaxError:
    return {'n': {'rejected_by_cpython': 1}}
  viol, nscopes, nstmts = check_src(src)
  out = []
  seen = set()
  for kind, msg in viol:
    if kind in seen:
      continue
    seen.add(kind)
    rb = reduce(item, kind)
    rsrc = render(rb)
    rv = [v for v in check_src(rsrc)[0] if v[0] == kind]
    sig = '%s|%s|%s' % (kind, skel(rb), rv[0][1] if rv else '')
    out.append(util.V(sig, '%s: %s\nreduced witness:\n%s' % (kind, msg, rsrc), item, source=src))
  nested = any(s[0] in ('def', 'class', 'lamr', 'lamp') for s in item)
  return {'viol': out, 'n': {'evaluations': 1, 'programs': 1, 'function_scopes_compared': nscopes, 'statements_compared': nstmts},
          'outcome': src, 'nontrivial': src if nested else None, 'sample': {'source': src}}


def skel(b):
  out = []
  for s in b:
    if s[0] == 'def':
      out.append('def[%s %s](%s)' % (s[1], s[2], skel(s[3])))
    elif s[0] in ('class', 'if'):
      out.append('%s(%s)' % (s[0], skel(s[1])))
    else:
      out.append('%s %s' % (s[0], s[1]))
  return '; '.join(out)


def reductions(b):
  for i, s in enumerate(b):
    yield b[:i] + b[i + 1:]
    if s[0] == 'def':
      yield b[:i] + s[3] + b[i + 1:]
      if s[1] != 'none':
        yield b[:i] + (('def', 'none', '', s[3]),) + b[i + 1:]
      for r in reductions(s[3]):
        yield b[:i] + (('def', s[1], s[2], r),) + b[i + 1:]
    elif s[0] in ('class', 'if'):
      yield b[:i] + s[1] + b[i + 1:]
      for r in reductions(s[1]):
        yield b[:i] + ((s[0], r),) + b[i + 1:]


def reduce(item, kind):
  body = item

  def fails(b):
    s = render(b)
    try:
      compile(s, '<r>', 'exec')
    except SyntaxError:
      return False
    try:
      return any(v[0] == kind for v in check_src(s)[0])
    except Exception:  # pylint:disable=broad-except
      return False
  changed = True
  steps = 0
  while changed and steps < 100:
    changed = False
    for c in reductions(body):
      steps += 1
      if fails(c):
        body, changed = c, True
        break
  return body


def exhaustive(tier, n):
  return True


def _canary():
  """Hiding a parameter from the analysis result must be caught."""
  from malt.pyct import anno
  src = 'def f(p):\n    def g1(a):\n        u(a)\n    return p\n'
  tree, fn, anno_, annos = analyse(src)
  v0 = check_src(src)[0]
  # break the oracle input instead of the code: compare against a symtable of a different program
  src2 = 'def f(p):\n    def g1(b):\n        u(a)\n    return p\n'
  import mc.props.c08 as me
  orig = me.sym_tables
  me.sym_tables = lambda s: orig(src2)
  try:
    v1 = check_src(src)[0]
  finally:
    me.sym_tables = orig
  return not v0 and any(k == 'params' for k, _ in v1)


CANARIES = [('symtable_oracle_fires_on_a_parameter_mismatch', _canary)]
