"""C16 - conversion-status context is restored on every exit and isolated per thread.

Part A (histories): every call tree up to a node bound over 12 node kinds, with
an exception raised at any one node (entry or exit) and caught at any ancestor
or not at all, checked against a reference model (a list used as a stack).
Part B (schedules): 2 threads each running a tree under the cooperative
scheduler (E5) with scheduling points at every line of core/ag_ctx.py and
operators/function_wrappers.py and preemption bounding; every thread must
observe exactly what it observes alone."""
import itertools
import linecache
import sys
import threading
import types

from mc import sched
from mc import util

ID = 'C16'
LEVEL = 'model_checking'
RULE = ('histories = every call tree with <= 3 nodes (thorough 4; fan-out <= 2) over node kinds {convert(), recursively converted, '
        'do_not_convert, internal_convert x ctx status x convert_by_default, with ControlStatusCtx(status), plain} x one raising '
        'node (entry / exit) or none x catching ancestor or none; schedules = all interleavings of 2 threads (thorough 3) running '
        'such trees with <= 2 (thorough 3) preemptions, scheduling points at every line of ag_ctx.py / function_wrappers.py')
ASSUMPTIONS = ['reference model: the status seen inside a node is a function of the node kind and the status at the call (a user-'
               'requested conversion called while the status is DISABLED runs unconverted and stays DISABLED)',
               'scheduling points are the traced lines of the two context modules; code in between touches no shared state']

# iconv_P: internal_convert with the context object that was current *before the parent node was called* (the documented
# pattern: capture control_status_ctx() outside, call internal_convert(fn, ctx)() further in) - the same object is then on the
# stack twice with the parent's context in between
KINDS = ('convert', 'convlam', 'rec', 'dnc', 'iconv_E', 'iconv_D', 'iconv_UT', 'iconv_UF', 'with_E', 'with_D', 'with_U', 'plain', 'lam',
         'iconv_P',
         # a generator function wrapped by do_not_convert: the wrapper returns the generator at once, its body runs when the
         # caller iterates it - in the CALLER's context, which must also be what the caller sees between two items
         'dncgen')
SRC = '''
def run_node(i):
    obs(i, 'in')
    maybe_raise(i, 'entry')
    for j in children(i):
        b = cur()
        if catches(i):
            try:
                NODES[j](j)
            except (NodeError, NodeBaseError):
                obs(i, 'caught')
            finally:
                chk(i, j, b)
        else:
            try:
                NODES[j](j)
            finally:
                chk(i, j, b)
    maybe_raise(i, 'exit')
    obs(i, 'out')
    return i


def run_with(i):
    obs(i, 'pre')
    with make_ctx(i):
        obs(i, 'in')
        maybe_raise(i, 'entry')
        for j in children(i):
            b = cur()
            if catches(i):
                try:
                    NODES[j](j)
                except (NodeError, NodeBaseError):
                    obs(i, 'caught')
                finally:
                    chk(i, j, b)
            else:
                try:
                    NODES[j](j)
                finally:
                    chk(i, j, b)
        maybe_raise(i, 'exit')
    obs(i, 'out')
    return i


run_lam = lambda i: run_node(i)


def run_gen(i):
    obs(i, 'in')
    maybe_raise(i, 'entry')
    for j in children(i):
        b = cur()
        if catches(i):
            try:
                NODES[j](j)
            except (NodeError, NodeBaseError):
                obs(i, 'caught')
            finally:
                chk(i, j, b)
        else:
            try:
                NODES[j](j)
            finally:
                chk(i, j, b)
    yield i
    maybe_raise(i, 'exit')
    obs(i, 'out')
'''


class NodeError(Exception):
  pass


class NodeBaseError(BaseException):
  """An exception outside the Exception hierarchy (like KeyboardInterrupt / GeneratorExit)."""


_S = {'tier': 'quick'}


def setup(tier, seed):
  import malt
  from malt.core import ag_ctx
  from malt.impl import api
  _S['tier'] = tier
  fname = '<c16prog>'
  linecache.cache[fname] = (len(SRC), None, SRC.splitlines(True), fname)
  mod = types.ModuleType('c16prog')
  sys.modules['c16prog'] = mod
  g = mod.__dict__
  tl = threading.local()
  _S['tl'] = tl

  def W():
    return tl.world
  art = api.autograph_artifact
  g['obs'] = art(lambda i, what: W().obs(i, what))
  g['maybe_raise'] = art(lambda i, when: W().maybe_raise(i, when))
  g['children'] = art(lambda i: W().children(i))
  g['catches'] = art(lambda i: W().catches(i))
  g['cur'] = art(lambda: ag_ctx.control_status_ctx())
  g['chk'] = art(lambda i, j, b: W().chk(i, j, b))
  g['make_ctx'] = art(lambda i: W().make_ctx(i))
  g['NodeError'] = NodeError
  g['NodeBaseError'] = NodeBaseError

  class NodesProxy(object):
    def __getitem__(self, j):
      w = W()
      w.before_call[j] = ag_ctx.control_status_ctx()
      return w.nodes[j]
  g['NODES'] = NodesProxy()
  exec(compile(SRC, fname, 'exec'), g)  # pylint:disable=exec-used
  _S['g'] = g
  _S['ag_ctx'] = ag_ctx
  _S['api'] = api
  _S['malt'] = malt


class World(object):
  """One tree instance: node table, observations, reference model."""

  def __init__(self, tree, raiser, catcher):
    ag_ctx = _S['ag_ctx']
    api = _S['api']
    malt = _S['malt']
    g = _S['g']
    self.kinds, self.parent = tree
    self.raiser = raiser      # (node, 'entry'|'exit') or None
    self.catcher = catcher    # node or None
    self.log = []
    self.viol = []
    self.before_call = {}
    self.kids = {}
    for j, p in enumerate(self.parent):
      if p is not None:
        self.kids.setdefault(p, []).append(j)
    S = ag_ctx.Status
    self.nodes = []
    self.ctx_for = {}
    for i, k in enumerate(self.kinds):
      base = g['run_with'] if k.startswith('with_') else (g['run_lam'] if k in ('lam', 'convlam') else g['run_node'])
      if k in ('convert', 'convlam'):
        fn = malt.convert(recursive=True)(base)
      elif k in ('rec', 'plain', 'lam'):
        fn = base
      elif k == 'dnc':
        fn = malt.experimental.do_not_convert(base)
      elif k == 'iconv_P':
        fn = self._captured_ctx_node(i, base)
      elif k == 'dncgen':
        fn = self._dnc_generator_node(i)
      elif k.startswith('iconv_'):
        st = {'E': S.ENABLED, 'D': S.DISABLED, 'U': S.UNSPECIFIED}[k[6]]
        ctx = ag_ctx.ControlStatusCtx(st)
        self.ctx_for[i] = ctx
        fn = api.internal_convert(base, ctx, convert_by_default=(k[7:] != 'F'))
      elif k.startswith('with_'):
        fn = base
      self.nodes.append(fn)

  def _dnc_generator_node(self, i):
    api = _S['api']
    malt = _S['malt']
    wrapped = malt.experimental.do_not_convert(_S['g']['run_gen'])

    def call(j):
      for _ in wrapped(j):
        self.obs(j, 'between')
      return j
    return api.autograph_artifact(call)

  def _captured_ctx_node(self, i, base):
    api = _S['api']
    ag_ctx = _S['ag_ctx']

    def call(j):
      p = self.parent[i]
      ctx = self.before_call.get(p) if p is not None else None
      if ctx is None:
        ctx = ag_ctx.control_status_ctx()
      return api.internal_convert(base, ctx)(j)
    return api.autograph_artifact(call)

  # --- callbacks from the generic node bodies
  def children(self, i):
    return list(self.kids.get(i, []))

  def catches(self, i):
    return self.catcher == i

  def make_ctx(self, i):
    S = _S['ag_ctx'].Status
    st = {'E': S.ENABLED, 'D': S.DISABLED, 'U': S.UNSPECIFIED}[self.kinds[i][5]]
    return _S['ag_ctx'].ControlStatusCtx(st)

  def obs(self, i, what):
    c = _S['ag_ctx'].control_status_ctx()
    self.log.append((i, what, c.status.name))

  def maybe_raise(self, i, when):
    if self.raiser is not None and self.raiser[:2] == (i, when):
      if len(self.raiser) > 2 and self.raiser[2] == 'base':
        raise NodeBaseError('node %d %s' % (i, when))
      raise NodeError('node %d %s' % (i, when))

  def chk(self, i, j, before):
    after = _S['ag_ctx'].control_status_ctx()
    self.log.append((i, 'after-child', j, after is before))
    if after is not before:
      self.viol.append(('not-restored', 'after the call of node %d (%s) from node %d the current context is %r, before the call it was %r' % (
          j, self.kinds[j], i, after, before)))

  # --- reference model
  def expected_inside(self, kind, cur, before_parent='UNSPECIFIED'):
    if kind == 'iconv_P':
      return before_parent
    if kind in ('convert', 'convlam'):
      return 'DISABLED' if cur == 'DISABLED' else 'ENABLED'
    if kind == 'dnc' or kind == 'iconv_D' or kind == 'with_D':
      return 'DISABLED'
    if kind in ('iconv_E', 'with_E'):
      return 'ENABLED'
    if kind in ('iconv_UT', 'iconv_UF', 'with_U'):
      return 'UNSPECIFIED'
    return cur

  def model_log(self):
    """Expected observation log from the list-as-stack reference model."""
    out = []

    def run(i, cur, before_parent='UNSPECIFIED'):
      kind = self.kinds[i]
      inside = self.expected_inside(kind, cur, before_parent)
      if kind.startswith('with_'):
        out.append((i, 'pre', cur))
      out.append((i, 'in', inside))
      if self.raiser is not None and self.raiser[:2] == (i, 'entry'):
        raise NodeError()
      for j in self.kids.get(i, []):
        if self.catcher == i:
          try:
            run(j, inside, cur)
          except NodeError:
            out.append((i, 'caught', inside))
          finally:
            out.append((i, 'after-child', j, True))
        else:
          try:
            run(j, inside, cur)
          finally:
            out.append((i, 'after-child', j, True))
      if kind == 'dncgen':
        out.append((i, 'between', inside))
      if self.raiser is not None and self.raiser[:2] == (i, 'exit'):
        raise NodeError()
      out.append((i, 'out', cur if kind.startswith('with_') else inside))
    try:
      run(0, 'UNSPECIFIED')
      out.append(('end', 'ret'))
    except NodeError:
      out.append(('end', 'raise'))
    return out

  def execute(self):
    ag_ctx = _S['ag_ctx']
    _S['tl'].world = self
    before = ag_ctx.control_status_ctx()
    depth = len(ag_ctx._control_ctx())
    self.before_call[0] = before
    try:
      self.nodes[0](0)
      self.log.append(('end', 'ret'))
    except (NodeError, NodeBaseError):
      self.log.append(('end', 'raise'))
    except Exception as e:  # pylint:disable=broad-except
      self.log.append(('end', 'error', type(e).__name__, str(e)[:80]))
    after = ag_ctx.control_status_ctx()
    if after is not before or len(ag_ctx._control_ctx()) != depth:
      self.viol.append(('not-restored-at-top', 'after the whole tree the context is %r (stack depth %d), before it was %r (depth %d)' % (
          after, len(ag_ctx._control_ctx()), before, depth)))
      del ag_ctx._control_ctx()[depth:]
    return self.log


def shapes(n):
  """Parent vectors of rooted ordered trees with n nodes, fan-out <= 2, depth <= 3 (preorder numbering)."""
  def rec(par):
    if len(par) == n:
      yield tuple(par)
      return
    j = len(par)
    for p in range(j):
      if sum(1 for q in par if q == p) >= 2:
        continue
      d = 0
      q = p
      while q is not None:
        d += 1
        q = par[q]
      if d >= 4:
        continue
      # preorder: the parent must be on the rightmost path
      q = j - 1
      onpath = False
      while q is not None:
        if q == p:
          onpath = True
          break
        q = par[q]
      if not onpath:
        continue
      for r in rec(par + [p]):
        yield r
  for r in rec([None]):
    yield r


def trees(maxn):
  for n in range(1, maxn + 1):
    for par in shapes(n):
      for kinds in itertools.product(KINDS, repeat=n):
        yield (kinds, par)


def ancestors(par, i):
  out = []
  q = par[i]
  while q is not None:
    out.append(q)
    q = par[q]
  return out


def items(tier, seed):
  maxn = 3 if tier == 'quick' else 4
  for kinds, par in trees(maxn):
    n = len(kinds)
    yield ('tree', kinds, par, None, None)
    for i in range(n):
      for when in ('entry', 'exit'):
        for flavour in ('exc', 'base'):
          yield ('tree', kinds, par, (i, when, flavour), None)
          for a in ancestors(par, i):
            yield ('tree', kinds, par, (i, when, flavour), a)
  # schedules
  reps = [(('convert', 'dnc'), (None, 0)), (('with_E', 'rec'), (None, 0)), (('dnc', 'convert'), (None, 0)),
          (('iconv_UF', 'with_D'), (None, 0)), (('convert', 'plain', 'with_U'), (None, 0, 1))]
  pairs = list(itertools.combinations_with_replacement(range(len(reps)), 2))
  for a, b in pairs:
    yield ('sched', reps[a], reps[b], 1)
  deep = [(0, 1), (2, 3)] if tier == 'quick' else pairs
  for a, b in deep:
    yield ('sched', reps[a], reps[b], 2)
  yield ('sched', reps[0], reps[1], reps[3], 1)
  if tier == 'thorough':
    yield ('sched', reps[0], reps[1], 3)


def tup(x):
  return tuple(tup(y) for y in x) if isinstance(x, (list, tuple)) else x


def check_tree(item, share_stack=False):
  _, kinds, par, raiser, catcher = item
  w = World((kinds, par), tup(raiser) if raiser else None, catcher)
  got = w.execute()
  want = w.model_log()
  viol = list(w.viol)
  if got != want:
    k = 0
    while k < min(len(got), len(want)) and got[k] == want[k]:
      k += 1
    viol.append(('status-differs', 'observation %d: got %r, reference model expects %r' % (
        k, got[k] if k < len(got) else None, want[k] if k < len(want) else None)))
  return viol, got


def run_threads(trees_, choices, shared=False):
  """Runs one tree per thread under the scheduler; returns (execution, per-thread logs, violations)."""
  ag_ctx = _S['ag_ctx']
  ex = sched.Execution(choices, files=('malt/core/ag_ctx.py', 'malt/operators/function_wrappers.py'))
  worlds = []
  for t, tr in enumerate(trees_):
    w = World(tup(tr), None, None)
    worlds.append(w)
    if shared:
      # canary: all threads share one context stack
      stack = ag_ctx._control_ctx()

      def body(w=w, stack=stack):
        ag_ctx.stacks.control_status = stack
        w.execute()
    else:
      body = w.execute
    ex.spawn(t, body)
  ex.run()
  return ex, [w.log for w in worlds], [v for w in worlds for v in w.viol]


def check_sched(item, shared=False):
  trees_ = [tup(t) for t in item[1:-1]]
  bound = item[-1]
  alone = []
  for tr in trees_:
    w = World(tr, None, None)
    alone.append(w.execute())
  viol = []
  outcomes = set()
  nsched = [0]
  npoints = [0]

  def make(choices):
    ex, logs, v = run_threads(trees_, choices, shared)
    nsched[0] += 1
    npoints[0] += len(ex.trace)
    outcomes.add(repr(logs))
    if (ex.hung or ex.diverged) and not any(x[0] == 'scheduler-hang' for x in viol):
      viol.append(('scheduler-hang', 'execution did not complete under the scheduler (hung=%s, diverged=%s), schedule %r' % (
          ex.hung, ex.diverged, [t[1] for t in ex.trace][:60])))
    if ex.deadlock and not any(x[0] == 'deadlock' for x in viol):
      viol.append(('deadlock', 'no enabled thread under schedule %r' % ([t[1] for t in ex.trace],)))
    for t, e in ex.errors.items():
      if not any(x[0] == 'thread-error' for x in viol):
        viol.append(('thread-error', 'thread %d raised %s: %s under schedule %r' % (t, type(e).__name__, str(e)[:100], [t_[1] for t_ in ex.trace])))
    for k, v_ in v:
      if not any(x[0] == k for x in viol):
        viol.append((k, v_ + ' under schedule %r' % ([t[1] for t in ex.trace],)))
    for t, (lg, al) in enumerate(zip(logs, alone)):
      if lg != al and not any(x[0] == 'not-isolated' for x in viol):
        viol.append(('not-isolated', 'thread %d observed %r, alone it observes %r; schedule %r' % (t, lg[:6], al[:6], [t_[1] for t_ in ex.trace])))
    return ex, None
  res, trunc = sched.explore(make, bound, max_schedules=60000)
  return viol, nsched[0], npoints[0], len(outcomes), trunc


def check(item):
  if item[0] == 'tree':
    viol, got = check_tree(item)
    out = []
    for k, m in viol:
      sig = '%s|%s|raise=%s|catch=%s' % (k, '>'.join('%s@%s' % (kd, p) for kd, p in zip(item[1], item[2])), item[3], item[4])
      out.append(util.V(sig, '%s: %s' % (k, m), item))
    return {'viol': out, 'n': {'evaluations': 1, 'states': len(got), 'transitions': max(0, len(got) - 1), 'trees': 1, 'traces_validated_against_impl': 1},
            'outcome': repr((item[1:], got)), 'nontrivial': repr(item) if len(item[1]) > 1 else None,
            'sample': {'tree': list(item[1]), 'parents': list(item[2]), 'raise': item[3], 'catch': item[4], 'observations': got[:8]}}
  viol, nsched, npoints, nout, trunc = check_sched(item)
  out = []
  for k, m in viol:
    out.append(util.V('%s|sched|%s' % (k, repr(item[1:-1])[:120]), '%s: %s' % (k, m), item))
  return {'viol': out, 'n': {'evaluations': nsched, 'schedules': nsched, 'states': npoints, 'transitions': npoints, 'schedule_exploration_truncated': int(trunc),
                             'traces_validated_against_impl': nsched},
          'outcome': repr(item) + str(nout), 'nontrivial': repr(item),
          'sample': {'threads': [list(t[0]) for t in item[1:-1]], 'preemption_bound': item[-1], 'schedules': nsched, 'distinct_outcomes': nout}}


def exhaustive(tier, n):
  return n.get('schedule_exploration_truncated', 0) == 0


def finalize(merged, tier):
  n = merged['n']
  return {'states': int(n.get('states', 0)), 'transitions': int(n.get('transitions', 0)),
          'traces_validated_against_impl': int(n.get('traces_validated_against_impl', 0)),
          'explanation': 'states/transitions = observation points of the tree executions plus scheduling points of all explored schedules; every '
                         'explored history / schedule is an execution of the real implementation compared with the reference stack model'}


def _canary():
  v = check_sched(('sched', (('convert', 'dnc'), (None, 0)), (('with_E', 'rec'), (None, 0)), 1), shared=True)[0]
  return any(k[0] in ('not-isolated', 'thread-error', 'not-restored', 'not-restored-at-top') for k in v)


CANARIES = [('isolation_oracle_fires_when_threads_share_one_stack', _canary)]
DETERMINISTIC = True
MAX_WORKERS = 16
