"""C19 - static type inference over-approximates the types that occur at run time.

Programs: exhaustive enumeration over typed statement kinds (E1); executions:
all tapes x typed inputs.  Resolver: truthful by construction.  Oracle: type
logger of an instrumented run (every Name load / store and every call of a
local function)."""
import ast
import itertools
from typing import Any, Callable

from mc import progspace as ps
from mc import tape as tapemod
from mc import util

ID = 'C19'
LEVEL = 'exploration'
RULE = ('programs = every statement list over {assign from int/float/bool/str literal, binary op, comparison, tuple build / unpack, '
        'list build / index, typed external call, unknown external call, augassign, local def reading / nonlocal-rebinding a '
        'variable to another type, call of the local function, if / if-else / while / for joins} up to the size bound; inputs '
        'typed int / float / str; executions = all tapes; every Name occurrence annotated with TYPES must contain the run-time '
        'type of every value it takes; CLOSURE_TYPES must cover the captured variables at each call of a local function; '
        'distinct_nontrivial = distinct programs with a compound statement or a local function')
ASSUMPTIONS = ['a node without TYPES annotation reports nothing and is always acceptable; Any / Callable match anything / any function',
               'tuple types are compared element-wise; resolver answers are computed by applying the real operator to representatives']

M = ps.Menu
KINDS = ('DEFPO', 'ONEI', 'ONEF', 'ONEB', 'DEF3', 'CHN', 'RDZ', 'LITI', 'LITF', 'LITS', 'BINADD', 'BINMUL', 'CMPV', 'TUPB', 'UNPK', 'LSTB', 'IDX', 'EXTI', 'EXTF', 'UNK', 'AUGV', 'DEFR', 'DEFW', 'CALL', 'RD')
MENUS = {
    'types': M('types', ('LITI', 'LITF', 'LITS', 'BINADD', 'BINMUL', 'CMPV', 'EXTF', 'UNK', 'AUGV', 'RD'), ('if', 'ifelse', 'while', 'for'), vars_=('x',), for_targets=('i',)),
    'tuples': M('tuples', ('LITI', 'LITF', 'TUPB', 'UNPK', 'CHN', 'RDZ', 'LSTB', 'IDX', 'RD'), ('if', 'while'), vars_=('x',), for_targets=('i',)),
    'clos': M('clos', ('LITI', 'LITF', 'DEFR', 'DEFW', 'CALL', 'RD'), ('if', 'while'), vars_=('x',), for_targets=('i',)),
    # literals that are equal (and hash alike) but differ in type: 1 == 1.0 == True
    'eqlit': M('eqlit', ('ONEI', 'ONEF', 'ONEB', 'RD', 'BINADD'), ('if', 'while'), vars_=('x',)),
    # a local function (re)defined inside a loop and called before and after its definition
    'loopdef': M('loopdef', ('LITI', 'LITF', 'DEFR', 'CALL'), ('while',), vars_=('x',), depth=1),
    # three function levels: the middle one has its own x (a parameter), the innermost declares it nonlocal
    'deep': M('deep', ('LITI', 'LITF', 'DEF3', 'DEFPO', 'CALL', 'RD'), ('if', 'while'), vars_=('x',)),
    # break in the else clause of a nested loop (leaves the OUTER loop)
    'loopelse': M('loopelse', ('LITF', 'RD', 'brk'), ('while', 'whileelse'), vars_=('x',), depth=2),
}
PLAN = {'quick': [('types', 3), ('tuples', 3), ('clos', 4), ('loopdef', 6), ('deep', 3), ('eqlit', 3), ('loopelse', 6)],
        'thorough': [('types', 4), ('tuples', 4), ('clos', 5), ('loopdef', 7), ('deep', 4), ('eqlit', 5), ('loopelse', 7)]}
_S = {'tier': 'quick'}
ps.VAR_KINDS = ps.VAR_KINDS + tuple(k for k in KINDS if k not in ps.VAR_KINDS)


def setup(tier, seed):
  _S['tier'] = tier


class Rend(ps.Render):
  def stmt(self, s, ind):
    k = s[0]
    e = self.emit
    v = s[1] if len(s) > 1 and isinstance(s[1], str) else 'x'
    if k == 'ONEI':
      e(ind, '%s = 1' % v)
    elif k == 'ONEF':
      e(ind, '%s = 1.0' % v)
    elif k == 'ONEB':
      e(ind, '%s = True' % v)
    elif k == 'LITI':
      e(ind, '%s = %d' % (v, self.new()))
    elif k == 'LITF':
      e(ind, '%s = %d.5' % (v, self.new()))
    elif k == 'LITS':
      e(ind, "%s = 's%d'" % (v, self.new()))
    elif k == 'BINADD':
      e(ind, '%s = %s + y' % (v, v))
    elif k == 'BINMUL':
      e(ind, '%s = %s * 2' % (v, v))
    elif k == 'CMPV':
      e(ind, '%s = %s < a' % (v, v))
    elif k == 'TUPB':
      e(ind, '%s = (%s, y)' % (v, v))
    elif k == 'UNPK':
      e(ind, 'y, %s = p' % v)
    elif k == 'CHN':
      e(ind, 'y, %s = z = p' % v)
    elif k == 'RDZ':
      e(ind, '%s = z' % v)
    elif k == 'LSTB':
      e(ind, '%s = [%s, y]' % (v, v))
    elif k == 'IDX':
      e(ind, '%s = p[0]' % v)
    elif k == 'EXTI':
      e(ind, '%s = ext_int()' % v)
    elif k == 'EXTF':
      e(ind, '%s = ext_float()' % v)
    elif k == 'UNK':
      e(ind, '%s = unknown()' % v)
    elif k == 'AUGV':
      e(ind, '%s += y' % v)
    elif k == 'RD':
      e(ind, 'z = %s' % v)
    elif k == 'DEFR':
      e(ind, 'def g():')
      e(ind + 1, 'return %s' % v)
    elif k == 'DEFW':
      e(ind, 'def g():')
      e(ind + 1, 'nonlocal %s' % v)
      e(ind + 1, '%s = 2.5' % v)
      e(ind + 1, 'return %s' % v)
    elif k == 'DEF3':
      e(ind, "def g(%s='s'):" % v)
      e(ind + 1, 'def h():')
      e(ind + 2, 'nonlocal %s' % v)
      e(ind + 2, 'return %s' % v)
      e(ind + 1, 'w = %s' % v)
      e(ind + 1, 'return h()')
    elif k == 'DEFPO':
      e(ind, "def g(%s='s', /):" % v)
      e(ind + 1, 'w = %s' % v)
      e(ind + 1, 'return w')
    elif k == 'CALL':
      e(ind, 'z = g()')
    else:
      ps.Render.stmt(self, s, ind)


def item_source(item):
  name, body = item
  r = Rend()
  r.emit(0, 'def f(a, b):')
  r.emit(1, 'x = 1')
  r.emit(1, 'y = 2.5')
  r.emit(1, 'p = (3, 4.5)')
  r.emit(1, 'z = 0')
  if name in ('clos', 'loopdef', 'deep') and not (body and body[0][0] in ('DEFR', 'DEFW', 'DEF3', 'DEFPO')):
    r.emit(1, 'def g():')
    r.emit(2, 'return y')
  r.block(body, 1)
  r.emit(1, 'return (x, y, z)')
  return '\n'.join(r.lines) + '\n'


def items(tier, seed):
  for name, maxn in PLAN[tier]:
    menu = MENUS[name]
    for n in range(1, maxn + 1):
      for body in ps.blocks(n, menu):
        yield (name, body)


REPS = {int: 3, float: 2.5, bool: True, str: 's', list: [1], type(None): None}


def rep(t):
  if isinstance(t, tuple):
    return tuple(rep(x) for x in t)
  return REPS.get(t, None)


def typeof(v):
  if isinstance(v, tuple):
    return tuple(typeof(x) for x in v)
  if callable(v) and not isinstance(v, type):
    return Callable
  return type(v)


def make_resolver(arg_types, externals):
  from malt.pyct.static_analysis import type_inference

  class Truthful(type_inference.Resolver):
    """Answers truthfully for literals, external names, arguments, operators and calls."""

    def res_name(self, ns, types_ns, name):
      n = str(name)
      if n in ns:
        return {typeof(ns[n])}, ns[n]
      return None, None

    def res_value(self, ns, value):
      return {typeof(value)}

    def res_arg(self, ns, types_ns, f_name, name, type_anno, f_is_local):
      return set(arg_types.get(str(name), ())) or None

    def res_call(self, ns, types_ns, node, f_type, args, keywords):
      fn = getattr(node.func, 'id', None)
      if fn in externals:
        return set(externals[fn]), None
      return None, None

    def _apply(self, fn, *type_sets):
      out = set()
      for combo in itertools.product(*type_sets):
        if any(t is Any for t in combo):
          return None
        try:
          out.add(typeof(fn(*[rep(t) for t in combo])))
        except Exception:  # pylint:disable=broad-except
          pass
      return out or None

    def res_binop(self, ns, types_ns, node, left, right):
      op = {ast.Add: lambda a, b: a + b, ast.Sub: lambda a, b: a - b, ast.Mult: lambda a, b: a * b, ast.FloorDiv: lambda a, b: a // b}.get(type(node.op))
      if op is None:
        return None
      return self._apply(op, left, right)

    def res_unop(self, ns, types_ns, node, opnd):
      return self._apply(lambda a: -a, opnd)

    def res_compare(self, ns, types_ns, node, left, right):
      if len(right) != 1:
        return None
      return self._apply(lambda a, b: a < b, left, right[0])

    def res_slice(self, ns, types_ns, node_or_slice, value, slice_):
      if isinstance(node_or_slice, int):
        i = node_or_slice
        return self._apply(lambda v: v[i], value)
      sl = getattr(node_or_slice, 'slice', None)
      if isinstance(sl, ast.Constant) and isinstance(sl.value, int):
        k = sl.value
        return self._apply(lambda v: v[k], value)     # the index is a literal: answer for that very index
      return None

    def res_list_literal(self, ns, elt_types):
      return {list}
  return Truthful()


class TypeLogger(ast.NodeTransformer):
  """Instruments the original: every Name load is wrapped in __ld(id, value); stores are logged after the statement;
  calls of the local function g are bracketed by __call(id)."""

  def __init__(self):
    self.ids = {}      # id -> original Name node key (lineno, col, name, ctx)
    self.in_fn = 0

  def key(self, node):
    return (node.lineno, node.col_offset, node.id, type(node.ctx).__name__)

  def visit_Name(self, node):
    if isinstance(node.ctx, ast.Load) and node.id in ('x', 'y', 'z', 'p', 'a', 'b', 'g', 'i'):
      k = self.key(node)
      return ast.copy_location(ast.Call(func=ast.Name(id='__ld', ctx=ast.Load()), args=[ast.Constant(k), node], keywords=[]), node)
    return node

  def _stores(self, node):
    out = []
    targets = node.targets if isinstance(node, ast.Assign) else [node.target]
    for t in targets:
      for n in ast.walk(t):
        if isinstance(n, ast.Name) and isinstance(n.ctx, ast.Store):
          out.append(n)
    return out

  def visit_Assign(self, node):
    names = self._stores(node)
    kind = 'assign'
    node.value = self.visit(node.value)
    logs = [ast.Expr(ast.Call(func=ast.Name(id='__st', ctx=ast.Load()),
                              args=[ast.Constant(self.key(n)), ast.Name(id=n.id, ctx=ast.Load()), ast.Constant(kind),
                                    ast.Constant(self.in_fn)], keywords=[])) for n in names]
    return [node] + logs

  def visit_AugAssign(self, node):
    n = node.target
    node.value = self.visit(node.value)
    log = ast.Expr(ast.Call(func=ast.Name(id='__st', ctx=ast.Load()),
                            args=[ast.Constant(self.key(n)), ast.Name(id=n.id, ctx=ast.Load()), ast.Constant('augassign'),
                                  ast.Constant(self.in_fn)], keywords=[]))
    return [node, log]

  def visit_FunctionDef(self, node):
    if node.name == 'f':
      node.body = [x for s in node.body for x in self._lst(self.visit(s))]
      return node
    self.in_fn += 1
    node.body = [x for s in node.body for x in self._lst(self.visit(s))]
    self.in_fn -= 1
    return node

  def _lst(self, r):
    return r if isinstance(r, list) else [r]

  def visit_Call(self, node):
    self.generic_visit(node)
    if isinstance(node.func, ast.Call) and getattr(node.func.func, 'id', '') == '__ld' and node.func.args[1].id == 'g':
      # g(args) -> __callg(g, args)
      return ast.Call(func=ast.Name(id='__callg', ctx=ast.Load()), args=[node.func] + list(node.args), keywords=[])
    return node


def type_ok(rt, annotated):
  """Is the run-time type rt covered by the annotated set?"""
  for t in annotated:
    if t is Any:
      return True
    if t is rt:
      return True
    if rt is Callable and (t is Callable or getattr(t, '__origin__', None) is not None and 'Callable' in repr(t)):
      return True
    if isinstance(t, tuple) and isinstance(rt, tuple) and len(t) == len(rt) and all(type_ok(a, (b,)) for a, b in zip(rt, t)):
      return True
    if t is bool and rt is bool:
      return True
  return False


def analyse(src, arg_types, drop_type=None):
  from malt.pyct import anno, cfg, naming, qual_names, transformer
  from malt.pyct.static_analysis import activity, reaching_definitions, reaching_fndefs, type_inference
  tree = ast.parse(src)
  fn = tree.body[0]
  externals = {'ext_int': {int}, 'ext_float': {float}}
  ns = {'ext_int': ext_int, 'ext_float': ext_float, 'unknown': unknown}
  info = transformer.EntityInfo(name='f', source_code=src, source_file=None, future_features=(), namespace=ns)
  ctx = transformer.Context(info, naming.Namer({}), None)
  qual_names.resolve(fn)
  activity.resolve(fn, ctx, None)
  graphs = cfg.build(fn)
  reaching_definitions.resolve(fn, ctx, graphs)
  reaching_fndefs.resolve(fn, ctx, graphs)
  # fixed-point guard: the inference has no widening, so an unbounded type chain (x = (x, y) in a loop) never converges
  budget = [400]
  orig_visit = type_inference.Analyzer.visit_node

  def guarded(self, node):
    budget[0] -= 1
    if budget[0] < 0 or any(len(v) > 64 or any(isinstance(t, tuple) and len(repr(t)) > 400 for t in v) for v in self.out[node].types.values()):
      raise NonTermination()
    return orig_visit(self, node)
  type_inference.Analyzer.visit_node = guarded
  try:
    type_inference.resolve(fn, ctx, graphs, make_resolver(arg_types, externals))
  finally:
    type_inference.Analyzer.visit_node = orig_visit
  types = {}
  closure = {}
  for n in ast.walk(fn):
    if isinstance(n, ast.Name) and anno.hasanno(n, anno.Static.TYPES):
      t = set(anno.getanno(n, anno.Static.TYPES))
      if drop_type is not None:
        t.discard(drop_type)
      types[(n.lineno, n.col_offset, n.id, type(n.ctx).__name__)] = t
    if isinstance(n, ast.FunctionDef) and n.name == 'g' and anno.hasanno(n, anno.Static.CLOSURE_TYPES):
      closure[n.lineno] = {str(k): set(v) for k, v in anno.getanno(n, anno.Static.CLOSURE_TYPES).items()}
  return types, closure


class NonTermination(Exception):
  pass


def ext_int():
  return 7


def ext_float():
  return 7.5


def unknown():
  return 's'


INPUTS = [(1, 2), (1.5, 2), ('q', 2)]


def run_item(src, tier, drop_type=None):
  arg_types = {'a': {int, float, str}, 'b': {int}}
  try:
    types, closure = analyse(src, arg_types, drop_type)
  except NotImplementedError:
    return [], 0, [], 'not-supported'
  except NonTermination:
    return [('analysis-does-not-terminate', 'type inference did not reach a fixed point within 400 node visits / 64 types per variable', ())], 0, [], 'diverged'
  tree = ast.parse(src)
  inst = ast.fix_missing_locations(TypeLogger().visit(tree))
  code = compile(inst, '<c19inst>', 'exec')
  env = tapemod.Env(6)
  viol = []
  outcomes = []
  last_writer = {}
  cur = {'g_line': None}

  pending_reads = []
  taint = {}

  nested_lines = {}     # line -> innermost local function containing it
  for fnode in ast.walk(tree):
    if isinstance(fnode, ast.FunctionDef) and fnode.name != 'f':
      for ln in range(fnode.lineno, fnode.end_lineno + 1):
        nested_lines[ln] = fnode.lineno

  def ld(k, v):
    pending_reads.append(k[2])
    t = types.get(tuple(k))
    if t is not None and not type_ok(typeof(v), t):
      cause = taint.get(k[2]) or last_writer.get(k[2], ('?', 'param', 0))
      if cause[2] and k[0] in nested_lines and nested_lines.get(cause[0]) == nested_lines[k[0]]:
        # written and read inside the local function itself: the flow-sensitive types of that function must cover it
        # (the known finding is about reads in the ENCLOSING function after the call)
        cause = (cause[0], cause[1] + '-read-back-in-the-same-local-function', 0)
      add(viol, classify('load', cause), 'line %d: %s holds a %s at run time, inferred types %s (last written by %s%s)' % (
          k[0], k[2], tname(typeof(v)), sorted(map(tname, t)), cause[1], ' inside the local function' if cause[2] else ''), tape())
    return v

  def st(k, v, kind, in_fn):
    t = types.get(tuple(k))
    unknown_rhs = t is None
    last_writer[k[2]] = (k[0], kind if not unknown_rhs else 'assignment-from-unknown', in_fn)
    # a value computed from a variable whose inferred type is already stale (a recorded root cause) inherits that cause
    own = last_writer[k[2]] if (in_fn or kind == 'augassign' or unknown_rhs) else None
    inherited = next((taint[r] for r in pending_reads if taint.get(r)), None)
    taint[k[2]] = own or inherited
    del pending_reads[:]
    if t is not None and not type_ok(typeof(v), t):
      add(viol, classify('store', taint[k[2]] or (k[0], kind, in_fn)), 'line %d: %s assigned a %s at run time, inferred types %s' % (
          k[0], k[2], tname(typeof(v)), sorted(map(tname, t))), tape())

  def callg(g, *args):
    # closure types at the call: the captured variables of g
    if g is not None and g.__closure__:
      names = g.__code__.co_freevars
      ct = closure.get(g.__code__.co_firstlineno)
      for nme, cell in zip(names, g.__closure__):
        try:
          val = cell.cell_contents
        except ValueError:
          continue
        if ct is not None and nme in ct and not type_ok(typeof(val), ct[nme]):
          cause = taint.get(nme) or last_writer.get(nme, ('?', 'param', 0))
          add(viol, classify('closure', cause), 'call of g (defined at line %d): captured %s holds a %s, CLOSURE_TYPES say %s' % (
              g.__code__.co_firstlineno, nme, tname(typeof(val)), sorted(map(tname, ct[nme]))), tape())
    return g(*args)
  holder = {}

  def frame_g():
    return holder.get('g')

  def tape():
    return tuple(env.tape)
  gl = {'c': env.c, 'it': env.it, 'ext_int': ext_int, 'ext_float': ext_float, 'unknown': unknown, '__ld': None, '__st': st, '__callg': callg}

  def ld2(k, v):
    if k[2] == 'g':
      holder['g'] = v
    return ld(k, v)
  gl['__ld'] = ld2
  exec(code, gl)  # pylint:disable=exec-used
  f = gl['f']
  nexec = [0]
  for inp in INPUTS:
    def run_ref():
      last_writer.clear()
      taint.clear()
      del pending_reads[:]
      try:
        return ('ret', tapemod.srepr(f(*inp)))
      except Exception as e:  # pylint:disable=broad-except
        return ('exc', type(e).__name__)

    def on_exec(tp, asked, ref):
      outcomes.append((inp, tp, ref))
    n, _, _ = tapemod.explore(env, run_ref, on_exec, dev=3)
    nexec[0] += n
  return viol, nexec[0], outcomes, 'ok'


def tname(t):
  if isinstance(t, tuple):
    return '(%s)' % ', '.join(tname(x) for x in t)
  return getattr(t, '__name__', repr(t))


def add(viol, kind, msg, tp):
  if not any(v[0] == kind for v in viol):
    viol.append((kind, msg, tp))


def classify(what, cause):
  """Root-cause classes of the unsound spots recorded in known_findings.json, identified by the dynamic last writer."""
  line, kind, in_fn = cause
  if in_fn:
    return 'nonlocal-rebinding-by-a-local-function-not-reflected-after-the-call'
  if kind == 'augassign':
    return 'augmented-assignment-keeps-the-old-type'
  if kind == 'assignment-from-unknown':
    return 'assignment-from-an-unknown-value-keeps-the-old-type'
  return 'unsound-' + what


def reduce_witness(item, kind):
  name, body = item

  def fails(b):
    s = item_source((name, b))
    try:
      compile(s, '<r>', 'exec')
      v = run_item(s, 'quick')[0]
    except Exception:  # pylint:disable=broad-except
      return None
    for x in v:
      if x[0] == kind:
        return x
    return None
  best = fails(body)
  if best is None:
    return body, None
  changed = True
  steps = 0
  while changed and steps < 60:
    changed = False
    for c in ps.reductions(body):
      steps += 1
      v = fails(c)
      if v is not None:
        body, best, changed = c, v, True
        break
  return body, best


KNOWN_CLASSES = ('analysis-does-not-terminate', 'nonlocal-rebinding-by-a-local-function-not-reflected-after-the-call', 'augmented-assignment-keeps-the-old-type',
                 'assignment-from-an-unknown-value-keeps-the-old-type')


def check(item):
  src = item_source(item)
  try:
    compile(src, '<gen>', 'exec')
  except SyntaxError:
    return {'n': {'invalid_programs_skipped': 1}}
  viol, nexec, outcomes, status = run_item(src, _S['tier'])
  out = []
  for kind, msg, tp in viol:
    if kind in KNOWN_CLASSES:
      sig = kind
      rsrc = src
    else:
      rb, rv = reduce_witness(item, kind)
      rsrc = item_source((item[0], rb))
      sig = '%s|%s|%s|%s' % (kind, item[0], ps.skeleton(rb), rv[1][:120] if rv else 'unreduced')
    out.append(util.V(sig, '%s on tape %s: %s\nprogram:\n%s' % (kind, list(tp), msg, rsrc), item, source=src))
  body = item[1]
  nontriv = any(len(s) > 1 and isinstance(s[1], tuple) for s in body) or ps.contains_kind(body, ('DEFR', 'DEFW'))
  return {'viol': out, 'n': {'evaluations': nexec, 'programs': 1, 'executions': nexec, 'analysis_not_supported': int(status != 'ok')},
          'outcome': repr(outcomes), 'nontrivial': src if nontriv else None, 'sample': {'source': src, 'executions': nexec}}


def exhaustive(tier, n):
  return True


def _canary():
  src = 'def f(a, b):\n    x = 1\n    y = 2.5\n    p = (3, 4.5)\n    z = 0\n    if c(1):\n        x = 2.5\n    z = x\n    return (x, y, z)\n'
  v = run_item(src, 'quick', drop_type=float)[0]
  return any(k[0].startswith('unsound') for k in v)


CANARIES = [('type_oracle_fires_when_a_type_is_removed_from_the_result', _canary)]
