"""C10 - conversion cache: coherent, converts once, thread-safe.

Part A (histories): explicit-state breadth-first search over request histories
on the real transpiler object; a state is the canonical content of the cache,
rebuilt by replaying its shortest history on a fresh transpiler; every
transition is checked against a reference model (a plain dict plus "convert
fresh with a cache-less transpiler").
Part B (schedules): 2-3 threads issuing colliding requests under the
cooperative scheduler (E5), preemption-bounded; the cache lock is replaced by a
scheduler-aware lock."""
import gc
import itertools
import linecache
import sys
import types

from mc import sched
from mc import util

ID = 'C10'
LEVEL = 'model_checking'
RULE = ('histories = breadth-first search over requests {to_graph, convert() wrapper call, converted_call} x function pools '
        '{two closures of one factory, same source in two globals dicts, loop functions with different defaults, FunctionType '
        'copy without defaults, redefined function, collected function, lambda} x option values {two equal-but-distinct, one '
        'different}; state = set of (code label, options label) in the cache; schedules = 2 threads x 1-2 requests and 3 '
        'threads x 1 request on colliding keys with <= 2 preemptions (identity transform) / <= 1 (real transpiler)')
ASSUMPTIONS = ['scheduling points = every traced line of pyct/transpiler.py (outside transform_ast and the pure helper _identifiers_of, which only reads the thread-owned tree), pyct/cache.py and the cache lock; '
               'the converter passes inside the lock touch no shared state',
               'reference model = dict keyed by (code object identity class, options value)']

POOL_SRC = '''
GV = %(gv)d


def make(k):
    def clo(a, b=%(dflt)s):
        if a > 100:
            a = a - 100
        return (a, b, k, GV, %(uid)d)
    return clo


def plain(a, b=%(dflt)s):
    if a > 100:
        a = a - 100
    return (a, b, GV, %(uid)d + 1, %(bk)d)


def loopfns():
    fs = []
    for j in (1, 2):
        def lf(a, b=[j]):
            if a > 100:
                a = a - 100
            return (a, b, GV, %(uid)d + 2)
        fs.append(lf)
    return fs


lam = lambda a, b=%(dflt)s: (a, b, GV, %(uid)d + 3) if a > 100 else (a + 0, b, GV, %(uid)d + 3)


class K(object):
    def __init__(self, tag):
        self.tag = tag

    def m(self, a, b=%(dflt)s):
        if a > 100:
            a = a - 100
        return (a, b, GV, %(uid)d + 4, self.tag)
'''

_S = {'tier': 'quick'}


def setup(tier, seed):
  _S['tier'] = tier


class Counter(object):
  pass


def make_transpiler(identity=False):
  from malt.impl import api
  counts = {}

  class Counting(api.PyToPy):
    def transform_ast(self, node, ctx):
      key = (getattr(node, 'name', 'lam'), repr(ctx.user.options.as_tuple()) if hasattr(ctx.user, 'options') else 'x')
      counts[key] = counts.get(key, 0) + 1
      counts['total'] = counts.get('total', 0) + 1
      if identity:
        return node
      return api.PyToPy.transform_ast(self, node, ctx)

    def get_extra_locals(self):
      if identity:
        return {}
      return api.PyToPy.get_extra_locals(self)
  return Counting(), counts


def load_pool(uid, gv, dflt='(7,)', name=None, bk=0):
  src = POOL_SRC % {'gv': gv, 'dflt': dflt, 'uid': uid, 'bk': bk}
  name = name or 'c10pool_%d_%d' % (uid, gv)
  fname = '<%s>' % ('c10pool_%d' % uid)     # same file name / lines for pools with the same uid: code objects compare equal
  linecache.cache[fname] = (len(src), None, src.splitlines(True), fname)
  mod = types.ModuleType(name)
  sys.modules[name] = mod
  exec(compile(src, fname, 'exec'), mod.__dict__)  # pylint:disable=exec-used
  return mod


class Pools(object):
  """The function pool of one history replay (fresh objects every time)."""

  def __init__(self, uid):
    self.uid = uid
    self.mods = []
    m1 = load_pool(uid, 11)
    m2 = load_pool(uid, 22, name='c10pool_%d_b' % uid)     # same source exec'd into a second globals dict
    self.mods += [m1, m2]
    lf = m1.loopfns()
    self.fn = {
        'cloA': m1.make(1), 'cloB': m1.make(2),             # one code object, different cells
        'glob1': m1.plain, 'glob2': m2.plain,               # equal-but-distinct code objects, different globals
        'loop1': lf[0], 'loop2': lf[1],                     # one code object, different default objects
        'nodef': types.FunctionType(m1.plain.__code__, m1.__dict__, 'plain'),   # shares code with glob1, has NO defaults
        'lam': m1.lam,
    }
    # bound methods of two instances: one code object; a NEW bound-method object is made for every request
    self.objs = {'methA': m1.K('A'), 'methB': m1.K('B')}
    self.redefined = None
    self.mods_src_uid = uid

  def get(self, name):
    if name in self.objs:
      return self.objs[name].m
    return self.fn[name]

  def code_label(self, name):
    return {'cloA': 'clo', 'cloB': 'clo', 'glob1': 'plain', 'glob2': 'plain', 'nodef': 'plain', 'loop1': 'lf', 'loop2': 'lf', 'lam': 'lam',
            'redef': 'plain2', 'methA': 'meth', 'methB': 'meth'}[name]

  def redefine(self):
    # a changed definition under the same name, file and line: different code object (constants differ)
    m3 = load_pool(self.uid, 11, dflt='(8, 8)', name='c10pool_%d_c' % self.uid, bk=1)
    self.mods.append(m3)
    self.fn['redef'] = m3.plain

  def close(self):
    for m in self.mods:
      sys.modules.pop(m.__name__, None)
    linecache.cache.pop('<c10pool_%d>' % self.uid, None)
    util.purge_generated()


def options(label):
  from malt.core import converter
  if label == 'O1':
    return converter.ConversionOptions(recursive=True, user_requested=True, optional_features=None)
  if label == 'O1b':
    return converter.ConversionOptions(recursive=True, user_requested=True, optional_features=())     # equal, not identical
  if label == 'O2':
    return converter.ConversionOptions(recursive=False, user_requested=True, optional_features=None)
  # values differing from O1 in exactly one field
  if label == 'O3':
    return converter.ConversionOptions(recursive=True, user_requested=True, internal_convert_user_code=False, optional_features=None)
  if label == 'O4':
    return converter.ConversionOptions(recursive=True, user_requested=True, optional_features=(converter.Feature.BUILTIN_FUNCTIONS,))
  if label == 'O5':
    return converter.ConversionOptions(recursive=True, user_requested=False, optional_features=None)
  raise ValueError(label)


OPT_CLASS = {'O1': 'A', 'O1b': 'A', 'O2': 'B', 'O3': 'C', 'O4': 'D', 'O5': 'E'}
ARGS = [(5,), (105,), (5, 'x')]


def expected_results(fn):
  out = []
  for a in ARGS:
    try:
      out.append(('ret', fn(*a)))
    except TypeError:
      out.append(('TypeError',))
  return out


def do_request(tr, counts, pools, req):
  """Performs one request on the real transpiler; returns (observed results, transforms done)."""
  from malt.core import converter
  from malt.impl import api
  kind, fname, olabel = req
  fn = pools.get(fname)
  before = counts.get('total', 0)
  api._TRANSPILER = tr
  opts = options(olabel)
  obs = []
  if kind == 'transform':
    cf, _, _ = tr.transform(fn, converter.ProgramContext(options=opts))
    recv = (fn.__self__,) if hasattr(fn, '__self__') else ()     # the transformed code of a method takes the receiver explicitly
    for a in ARGS:
      try:
        obs.append(('ret', cf(*(recv + a))))
      except TypeError:
        obs.append(('TypeError',))
  elif kind == 'wrapper':
    w = api.convert(recursive=opts.recursive)(fn)
    for a in ARGS:
      try:
        obs.append(('ret', w(*a)))
      except TypeError:
        obs.append(('TypeError',))
  elif kind == 'converted_call':
    for a in ARGS:
      try:
        obs.append(('ret', api.converted_call(fn, a, None, options=opts)))
      except TypeError:
        obs.append(('TypeError',))
  return obs, counts.get('total', 0) - before


GROUPS = {
    'closures': ['cloA', 'cloB'],
    'globals': ['glob1', 'glob2', 'nodef'],
    'defaults': ['loop1', 'loop2'],
    'lambda': ['lam'],
    'redefine': ['glob1', 'redef'],
    'methods': ['methA', 'methB'],
}


def requests_of(group):
  for fname in GROUPS[group]:
    for kind in ('transform', 'wrapper', 'converted_call'):
      for ol in ('O1', 'O1b', 'O2', 'O3', 'O4', 'O5'):
        if kind == 'wrapper' and ol not in ('O1', 'O2'):
          continue
        if kind == 'transform' and ol in ('O4', 'O5'):
          continue
        yield (kind, fname, ol)


def items(tier, seed):
  for g in GROUPS:
    for k in range(len(list(requests_of(g)))):
      yield ('bfs', g, 3 if tier == 'quick' else 4, k)
  yield ('gc',)
  # schedules: (threads requests, transpiler kind, bound)
  same = (('transform', 'cloA', 'O1'), ('transform', 'cloB', 'O1b'))
  K = 12
  for k in range(K):
    for first in (0, 1):      # which thread runs first is a free (zero-cost) choice: one subtree per shard family
      yield ('sched', (same[0:1], same[1:2]), 'identity', 2, (k, K), (first,))
  yield ('sched', ((('transform', 'glob1', 'O1'),), (('transform', 'glob2', 'O1'),)), 'identity', 1)
  yield ('sched', ((('transform', 'loop1', 'O1'),), (('transform', 'loop1', 'O2'),)), 'identity', 1)
  yield ('sched', ((('transform', 'cloA', 'O1'), ('transform', 'cloA', 'O2')), (('transform', 'cloB', 'O2'), ('transform', 'cloB', 'O1'))), 'identity', 1)
  yield ('sched', ((('transform', 'cloA', 'O1'),), (('transform', 'cloB', 'O1'),), (('transform', 'cloA', 'O1b'),)), 'identity', 1)
  yield ('sched', (same[0:1], same[1:2]), 'real', 1)
  yield ('sched', ((('converted_call', 'cloA', 'O1'),), (('converted_call', 'cloB', 'O1'),)), 'real', 1)
  if tier == 'thorough':
    for k in range(K):
      for first in (0, 1):
        yield ('sched', ((('transform', 'glob1', 'O1'),), (('transform', 'glob2', 'O1'),)), 'identity', 2, (k, K), (first,))
        yield ('sched', ((('transform', 'loop1', 'O1'),), (('transform', 'loop1', 'O2'),)), 'identity', 2, (k, K), (first,))
        yield ('sched', (same[0:1], same[1:2]), 'real', 2, (k, K), (first,))


_UID = [0]


def next_uid():
  _UID[0] += 7
  return 500000 + _UID[0] * 10


def replay(history, uid, forget=None):
  """Replays a history on a fresh transpiler + fresh pool; returns (violations, state, per-step info)."""
  tr, counts = make_transpiler()
  pools = Pools(uid)
  model = set()
  viol = []
  try:
    for step, req in enumerate(history):
      kind, fname, ol = req
      if fname == 'redef' and 'redef' not in pools.fn:
        pools.redefine()      # the definition changes now: same name, file and line, different body
      key = (pools.code_label(fname), OPT_CLASS[ol] if kind != 'wrapper' else ('A' if ol in ('O1', 'O1b') else 'B'))
      want = expected_results(pools.get(fname))
      try:
        got, ntrans = do_request(tr, counts, pools, req)
      except Exception as e:  # pylint:disable=broad-except
        viol.append(('request-error', 'history %r: request %r raised %s: %s' % (history[:step], req, type(e).__name__, str(e)[:160])))
        break
      if got != want:
        viol.append(('wrong-function', 'after history %r the request %r behaves as %r, a fresh conversion of that function gives %r' % (
            list(history[:step]), req, got, want)))
      if forget is not None and key == forget:
        model.discard(key)     # canary: a reference dict that forgets this key
      exp_trans = 0 if key in model else 1
      no_conv = (kind == 'converted_call' and ol == 'O3')   # internal_convert_user_code off: the call runs the target as it is
      if no_conv:
        exp_trans = 0
      if ntrans != exp_trans:
        viol.append(('transform-count', 'after history %r the request %r ran the source transformation %d time(s), the reference model expects %d' % (
            list(history[:step]), req, ntrans, exp_trans)))
      if not no_conv:
        model.add(key)
    state = frozenset(model)
  finally:
    pools.close()
  return viol, state


def bfs(group, depth, forget=None, first=None):
  reqs = list(requests_of(group))
  seen = {frozenset(): ()}
  frontier = [()]
  if first is not None:
    # shard: only histories starting with request number `first`
    frontier = [(reqs[first],)]
    v0, st0 = replay(frontier[0], next_uid(), forget)
    seen[st0] = frontier[0]
    depth -= 1
    viol0 = list(v0)
  else:
    viol0 = []
  viol = viol0
  transitions = len(viol0) * 0 + (1 if first is not None else 0)
  validated = transitions
  d = 0
  while frontier and d < depth:
    nxt = []
    for hist in frontier:
      for r in reqs:
        if r[1] == 'glob1' and group == 'redefine' and any(x[1] == 'redef' for x in hist):
          continue   # the old definition's source is gone once the file changed: it is not requested again
        h2 = hist + (r,)
        v, st = replay(h2, next_uid(), forget)
        transitions += 1
        validated += 1
        for x in v:
          if not any(y[0] == x[0] for y in viol):
            viol.append(x)
        if st not in seen:
          seen[st] = h2
          nxt.append(h2)
    frontier = nxt
    d += 1
  return viol, len(seen), transitions, validated, sorted(sorted(s) for s in seen)


def check_gc():
  """A collected function: its cache entry dies with the code object; an equal function created later converts afresh
  and is never served the stale module."""
  tr, counts = make_transpiler()
  viol = []
  uid = next_uid()
  pools = Pools(uid)
  try:
    from malt.core import converter
    opts = options('O1')
    src = 'def victim(a):\n    if a > 100:\n        a = a - 100\n    return (a, %d)\n'
    fname = '<c10gc_%d>' % uid
    res = []
    for gen in (1, 2):
      s = src % (uid + gen)
      linecache.cache[fname] = (len(s), None, s.splitlines(True), fname)
      g = {'__name__': 'c10gc'}
      exec(compile(s, fname, 'exec'), g)  # pylint:disable=exec-used
      fn = g['victim']
      want = fn(105)
      before = counts.get('total', 0)
      cf, _, _ = tr.transform(fn, converter.ProgramContext(options=opts))
      got = cf(105)
      n = counts.get('total', 0) - before
      if got != want:
        viol.append(('stale-code', 'generation %d of a redefined + collected function returned %r, expected %r' % (gen, got, want)))
      if n != 1:
        viol.append(('transform-count', 'generation %d: %d transformations, expected 1 (the first definition was collected)' % (gen, n)))
      del fn, cf, g
      gc.collect()
      res.append(len(tr._cache))
    if res[0] != 0 or res[1] != 0:
      viol.append(('cache-leak', 'cache still holds %r entries after the functions were collected' % (res,)))
  finally:
    pools.close()
    linecache.cache.pop(fname, None)
  return viol


def check_sched(item, drop_recheck=False):
  _, threads, trkind, bound = item[:4]
  shard = item[4] if len(item) > 4 else None
  start = item[5] if len(item) > 5 else ()
  from malt.core import converter
  viol = []
  outcomes = set()
  nsched = [0]
  npoints = [0]

  def make(choices):
    tr, counts = make_transpiler(identity=(trkind == 'identity'))
    if drop_recheck:
      # canary: a transpiler whose second has() under the lock always says "not cached"
      orig_has = tr._cache.has
      calls = {}

      def has(entity, subkey, _c=calls):
        import threading
        t = threading.get_ident()
        _c[t] = _c.get(t, 0) + 1
        return orig_has(entity, subkey) if _c[t] == 1 else False
      tr._cache = _HasWrapper(tr._cache, has)
    uid = next_uid()
    pools = Pools(uid)
    ex = sched.Execution(choices, files=('malt/pyct/transpiler.py', 'malt/pyct/cache.py'))
    tr._cache_lock = ex.make_lock()
    results = {}

    def body(t, reqs):
      def run():
        out = []
        for kind, fname, ol in reqs:
          fn = pools.get(fname)
          if kind == 'transform':
            cf, mod, _ = tr.transform_function(fn, converter.ProgramContext(options=options(ol)))
            out.append((fname, ol, cf, mod))
          else:
            from malt.impl import api
            api._TRANSPILER = tr
            out.append((fname, ol, api.converted_call(fn, (5,), None, options=options(ol)), None))
        results[t] = out
      return run
    for t, reqs in enumerate(threads):
      ex.spawn(t, body(t, reqs))
    try:
      ex.run()
      nsched[0] += 1
      npoints[0] += len(ex.trace)
      sch = [x[1] for x in ex.trace]
      if ex.hung or ex.diverged:
        add(viol, 'scheduler-hang', 'execution did not complete (hung=%s diverged=%s) under schedule %r' % (ex.hung, ex.diverged, sch[:80]))
        return ex, None
      if ex.deadlock:
        add(viol, 'deadlock', 'no enabled thread under schedule %r' % (sch,))
      for t, e in ex.errors.items():
        add(viol, 'thread-error', 'thread %d raised %s: %s under schedule %r' % (t, type(e).__name__, str(e)[:120], sch))
      # oracle: each returned function behaves as its own original; one transformation per key; one module per key
      mods = {}
      for t, out in results.items():
        for fname, ol, cf, mod in out:
          fn = pools.get(fname)
          if trkind == 'identity' or mod is None:
            got = cf(5) if callable(cf) else cf
            want = fn(5)
          else:
            got, want = cf(5), fn(5)
          if got != want:
            add(viol, 'wrong-function', 'thread %d asked for %s/%s and got a function returning %r instead of %r; schedule %r' % (t, fname, ol, got, want, sch))
          if mod is not None:
            key = (pools.code_label(fname), OPT_CLASS[ol])
            mods.setdefault(key, set()).add(id(mod))
      for key, ms in mods.items():
        if len(ms) > 1:
          add(viol, 'two-modules', 'requests for key %r were served from %d different generated modules; schedule %r' % (key, len(ms), sch))
      nkeys = len(set((pools.code_label(f), OPT_CLASS[o]) for reqs in threads for _, f, o in reqs))
      if counts.get('total', 0) > nkeys:
        add(viol, 'transformed-twice', '%d source transformations for %d distinct (code, options) keys; schedule %r' % (counts.get('total', 0), nkeys, sch))
      outcomes.add((counts.get('total', 0), tuple(sorted((k, len(v)) for k, v in mods.items()))))
    finally:
      pools.close()
    return ex, None
  res, trunc = sched.explore(make, bound, max_schedules=40000, shard=shard, start=start)
  return viol, nsched[0], npoints[0], len(outcomes), trunc


class _HasWrapper(object):
  """Cache proxy used by the canary: delegates everything but has()."""

  def __init__(self, inner, has):
    self._inner = inner
    self.has = has

  def __getitem__(self, k):
    return self._inner[k]

  def __len__(self):
    return len(self._inner)


def add(viol, kind, msg):
  if not any(v[0] == kind for v in viol):
    viol.append((kind, msg))


def check(item):
  if item[0] == 'bfs':
    viol, nstates, ntrans, nval, states = bfs(item[1], item[2], first=item[3] if len(item) > 3 else None)
    out = [util.V('%s|bfs|%s' % (k, item[1]), '%s: %s' % (k, m), item) for k, m in viol]
    return {'viol': out, 'n': {'evaluations': ntrans, 'states': nstates, 'transitions': ntrans, 'traces_validated_against_impl': nval, 'histories': ntrans},
            'outcome': repr(states), 'nontrivial': 'bfs-' + item[1],
            'sample': {'group': item[1], 'depth': item[2], 'cache_states': states[:6], 'transitions': ntrans}}
  if item[0] == 'gc':
    viol = check_gc()
    out = [util.V('%s|gc' % k, '%s: %s' % (k, m), item) for k, m in viol]
    return {'viol': out, 'n': {'evaluations': 2, 'states': 2, 'transitions': 2, 'traces_validated_against_impl': 1}, 'outcome': 'gc', 'nontrivial': 'gc',
            'sample': {'history': 'define, convert, delete + collect, redefine with equal name/line, convert'}}
  viol, nsched, npoints, nout, trunc = check_sched(item)
  out = [util.V('%s|sched|%s|%s' % (k, item[2], repr(item[1])[:100]), '%s: %s' % (k, m), item) for k, m in viol]
  return {'viol': out, 'n': {'evaluations': nsched, 'schedules': nsched, 'states': npoints, 'transitions': npoints, 'traces_validated_against_impl': nsched,
                             'schedule_exploration_truncated': int(trunc)},
          'outcome': repr(item) + str(nout), 'nontrivial': repr(item),
          'sample': {'threads': [[list(r) for r in t] for t in item[1]], 'transpiler': item[2], 'preemption_bound': item[3], 'schedules': nsched,
                     'distinct_outcomes': nout}}


def exhaustive(tier, n):
  return n.get('schedule_exploration_truncated', 0) == 0


def finalize(merged, tier):
  n = merged['n']
  return {'states': int(n.get('states', 0)), 'transitions': int(n.get('transitions', 0)),
          'traces_validated_against_impl': int(n.get('traces_validated_against_impl', 0)),
          'explanation': 'states = distinct cache contents reached by the BFS plus scheduling points of all explored schedules; every history and '
                         'every schedule is executed on the real transpiler and compared with the dict reference model'}


def _canary_model():
  """A reference dict that forgets one key must disagree with the implementation."""
  v = bfs('closures', 2, forget=('clo', 'A'))[0]
  return any(k[0] == 'transform-count' for k in v)


def _canary_sched():
  same = (('transform', 'cloA', 'O1'), ('transform', 'cloB', 'O1b'))
  v = check_sched(('sched', (same[0:1], same[1:2]), 'identity', 1), drop_recheck=True)[0]
  return any(k[0] in ('transformed-twice', 'two-modules') for k in v)


CANARIES = [('reference_model_forgetting_a_key_is_detected', _canary_model),
            ('missing_recheck_under_the_lock_is_detected_at_bound_1', _canary_sched)]
DETERMINISTIC = True
