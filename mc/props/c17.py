"""C17 - generated code is a well-formed tree that loads as what to_code shows.

Programs: C01 menus (smaller bound) plus a literal/expression menu, under
several option sets.  Oracle: the tree handed to loader.load_ast is a proper
tree, compiles, equals the re-parsed text of the loaded module; to_code is the
text of that module; source-map entries send marked generated lines to the
original line carrying the same marker."""
import ast
import inspect
import re
import textwrap

from mc import diff
from mc import progspace as ps
from mc import util
from mc.props import c01

ID = 'C17'
LEVEL = 'exploration'
RULE = ('programs = C01 menus up to the size bound + every list of up to 3 statements of a literal/expression menu (negative '
        'numbers, nested f-strings, tuple subscripts, starred, walrus, chained comparison, lambda defaults, ** displays, slices, '
        'list operations, subscripted state) x option sets {none, BUILTIN_FUNCTIONS, EQUALITY_OPERATORS, LISTS, all three} x '
        '{plain, from __future__ import annotations}; per conversion: node uniqueness, compile(), structural equality with the '
        're-parsed module text, file content, to_code text, source-map markers; distinct_nontrivial = distinct (program, '
        'options) pairs')
ASSUMPTIONS = ['structural equality ignores position attributes, the annotation pseudo-field and shared operator/context singletons',
               'source-map check uses the site numbers of environment calls as markers (a marked generated line must map to the '
               'original line containing the same call)']

LIT = ('NEG', 'FSTR', 'TSUB', 'STAR', 'STARCALL', 'WALRUS', 'CHAIN', 'LAMDEF', 'DSTAR', 'SLICE', 'LNEW', 'LAPPEND', 'LPOP',
       'LITAPPEND', 'SUBSTATE', 'EQ', 'BUILTIN', 'SETC', 'DICTC', 'GENEXP', 'ANNASSIGN', 'MATMUL', 'GLOBALNEG', 'NEGSUB')
LIT_SRC = {
    'NEG': 'x = -%(k)d',
    'FSTR': 'x = f"{x!r:>{%(k)d}}{f\'{x}\'}"',
    'TSUB': 'x = ident[%(k)d, x]',
    'STAR': 'x = [*L, x]',
    'STARCALL': 'x = t(%(k)d, *L, **DD)',
    'WALRUS': 'x = (w := x)',
    'CHAIN': 'x = 1 < x < %(k)d',
    'LAMDEF': 'x = (lambda a=x, *b, c=%(k)d, **e: (a, b, c))()',
    'DSTAR': "x = {**DD, 'k': x}",
    'SLICE': 'x = L[1:x:2]',
    'LNEW': 'l = []',
    'LAPPEND': 'l.append(x)',
    'LPOP': 'x = l.pop()',
    'LITAPPEND': 'stacks[0].append(x)',
    'SUBSTATE': 'stacks[x] = stacks[x] + [%(k)d]',
    'EQ': 'x = x == %(k)d',
    'BUILTIN': 'x = len(range(abs(x)))',
    'SETC': 'x = {j for j in L if j != x}',
    'DICTC': 'x = {j: x for j in L}',
    'GENEXP': 'x = list(j + 1 for j in L)',
    'ANNASSIGN': 'y: int = x',
    'MATMUL': 'x = x if x else -x ** -2',
    'GLOBALNEG': 'x = (-1, -2.5, -3j, not x)',
    'NEGSUB': 'stacks[-1] = stacks[-1] + [%(k)d]',
}
FEATS = [(), ('BUILTIN_FUNCTIONS',), ('EQUALITY_OPERATORS',), ('LISTS',), ('BUILTIN_FUNCTIONS', 'EQUALITY_OPERATORS', 'LISTS')]
PLAN = {
    'quick': [('core', 2, (('x', 'y'),), (('x', 'y'),)), ('jumps', 3, (('x',),), (('x',),)), ('try', 3, (('x',),), (('x',),)),
              ('clos', 2, (('x',),), (('x',),)), ('expr', 2, (('x',),), (('x',),)), ('state', 2, (('x', 'y'),), (('x', 'y'),)),
              ('targets', 2, (('x', 'y'),), (('x', 'y'),)), ('compidx', 3, ((),), ((),)), ('partial', 3, (('x',),), (('x',),))],
    'thorough': [('core', 3, (('x', 'y'),), (('x', 'y'),)), ('jumps', 4, (('x',),), (('x',),)), ('try', 4, (('x',),), (('x',),)),
                 ('clos', 3, (('x',),), (('x',),)), ('expr', 3, (('x',),), (('x',),)), ('state', 3, (('x', 'y'),), (('x', 'y'),)),
                 ('targets', 3, (('x', 'y'),), (('x', 'y'),)), ('compidx', 4, ((),), ((),)), ('partial', 4, (('x',),), (('x',),))],
}
LITN = {'quick': 2, 'thorough': 3}
_S = {'tier': 'quick'}


def setup(tier, seed):
  _S['tier'] = tier


def lit_programs(n):
  import itertools
  for k in range(1, n + 1):
    for combo in itertools.product(LIT, repeat=k):
      yield combo


def items(tier, seed):
  i = 0
  for name, body, pro, epi in c01.programs(tier, PLAN[tier]):
    for fi in (0, 2) if i % 2 == 0 else (1, 4):
      yield ('menu', name, body, pro, epi, fi, i % 3 == 0)
    i += 1
  for combo in lit_programs(LITN[tier]):
    for fi in range(len(FEATS)):
      # 'wrapped': the converted entity is a closure made by a functools.wraps decorator (it carries __wrapped__)
      for ctx in ('plain', 'while', 'if') + (('wrapped',) if len(combo) == 1 else ()):
        yield ('lit', combo, ctx, fi, fi % 2 == 1)


def item_source(item):
  if item[0] == 'menu':
    _, name, body, pro, epi, fi, fut = item
    src = ps.source(body, pro=pro, epi=epi, pid=0, helpers=(name in ('callee', 'partial')))
  else:
    _, combo, ctx, fi, fut = item
    lines = []
    k = [0]

    def site():
      k[0] += 1
      return k[0]
    stm = [LIT_SRC[c] % {'k': site() + 1} for c in combo]
    body = []
    if ctx == 'plain':
      body = stm
    elif ctx == 'while':
      body = ['while c(%d):' % site()] + ['    ' + s for s in stm]
    else:
      body = ['if c(%d):' % site()] + ['    ' + s for s in stm] + ['else:', '    x = t(%d, x)' % site()]
    if ctx == 'wrapped':
      body = ['if c(%d):' % site()] + ['    ' + s for s in stm]
      src = ('import functools\n\n\ndef _deco(fn):\n    @functools.wraps(fn)\n    def wrapper(zo, d):\n        x = fn(zo, d)\n        l = [1]\n'
             '        stacks = [[], []]\n' + ''.join('        %s\n' % b for b in body) + '        return (0, x, l, stacks)\n    return wrapper\n\n\n'
             '@_deco\ndef f(zo, d):\n    return 2\n')
    else:
      src = 'def f(zo, d):\n    x = 2\n    l = [1]\n    stacks = [[], []]\n' + ''.join('    %s\n' % b for b in body) + '    return (0, x, l, stacks)\n'
  if fut:
    src = 'from __future__ import annotations\n' + src
  return src, FEATS[item[-2]]


IGNORED_FIELDS = ('kind', 'type_comment', 'type_ignores', 'lineno', 'col_offset', 'end_lineno', 'end_col_offset')
SINGLETONS = (ast.expr_context, ast.operator, ast.unaryop, ast.cmpop, ast.boolop)


def struct_diff(a, b, path='tree'):
  """First structural difference between two ASTs (None if equal)."""
  if isinstance(a, ast.AST) or isinstance(b, ast.AST):
    if type(a) is not type(b):
      return '%s: %s vs %s' % (path, type(a).__name__, type(b).__name__)
    for f in a._fields:
      if f in IGNORED_FIELDS or f.startswith('___'):
        continue
      va = getattr(a, f, None)
      vb = getattr(b, f, None)
      if f == 'type_params' and not va and not vb:
        continue
      d = struct_diff(va, vb, '%s.%s' % (path, f))
      if d:
        return d
    return None
  if isinstance(a, (list, tuple)) or isinstance(b, (list, tuple)):
    a = list(a or [])
    b = list(b or [])
    if len(a) != len(b):
      return '%s: %d vs %d elements' % (path, len(a), len(b))
    for i, (x, y) in enumerate(zip(a, b)):
      d = struct_diff(x, y, '%s[%d]' % (path, i))
      if d:
        return d
    return None
  if a != b and not (a in (None, []) and b in (None, [])):
    if isinstance(a, float) and isinstance(b, float) and a != a and b != b:
      return None
    return '%s: %r vs %r' % (path, a, b)
  return None


def shared_nodes(nodes):
  seen = {}
  dup = []

  def walk(n, path):
    if isinstance(n, ast.AST):
      if not isinstance(n, SINGLETONS):
        if id(n) in seen:
          dup.append('%s %s reachable as %s and %s' % (type(n).__name__, safe_unparse(n), seen[id(n)], path))
          return
        seen[id(n)] = path
      for f in n._fields:
        if not f.startswith('___'):
          walk(getattr(n, f, None), '%s.%s' % (path, f))
    elif isinstance(n, (list, tuple)):
      for i, x in enumerate(n):
        walk(x, '%s[%d]' % (path, i))
  walk(list(nodes), 'tree')
  return dup


def safe_unparse(n):
  try:
    return ast.unparse(n)[:40]
  except Exception:  # pylint:disable=broad-except
    return '?'


MARK = re.compile(r'ag__\.ld\((t|c|it|it2|it3|cm|mark)\), \((\d+),')


def convert_and_check(src, feats, pid, share_constant=False):
  from malt.impl import api
  from malt.pyct import loader
  from malt.core import converter
  import malt
  viol = []
  captured = []
  orig_load = loader.load_ast

  def load_ast(nodes, *a, **k):
    if share_constant:
      # canary: make two call sites share one Constant object
      consts = [n for x in (nodes if isinstance(nodes, (list, tuple)) else [nodes]) for n in ast.walk(x)
                if isinstance(n, ast.Tuple) and n.elts and isinstance(n.elts[0], ast.Constant)]
      if len(consts) >= 2:
        consts[1].elts[0] = consts[0].elts[0]
    r = orig_load(nodes, *a, **k)
    captured.append((nodes if isinstance(nodes, (list, tuple)) else (nodes,), r[0], r[1], r[2]))
    return r
  h = diff.Harness(src, pid, extra_globals={'ident': _Ident(), 'L': [1, 2, 3], 'DD': {'z': 1}})
  api._TRANSPILER = api.PyToPy()
  loader.load_ast = load_ast
  try:
    F = malt.experimental.Feature
    of = tuple(getattr(F, n) for n in feats) or None
    try:
      cf = malt.to_graph(h.f, experimental_optional_features=of)
    except Exception as e:  # pylint:disable=broad-except
      return [('convert-error', 'conversion failed with %s: %s' % (type(e).__name__, str(e).strip().split('\n')[0][:200]))], 0
    if not captured:
      return [('harness', 'load_ast was not called')], 0
    nodes, module, source, source_map = captured[-1]
    # 1. proper tree
    dup = shared_nodes(nodes)
    if dup:
      viol.append(('shared-node', dup[0]))
    # 2. compiles
    try:
      mod = ast.Module(body=list(nodes), type_ignores=[])
      compile(ast.fix_missing_locations(mod), '<c17>', 'exec')
    except Exception as e:  # pylint:disable=broad-except
      viol.append(('compile', 'compile() of the generated tree fails: %s: %s' % (type(e).__name__, e)))
    # 3. re-parsing the printed text gives the same tree
    try:
      re_ = ast.parse(source)
      d = struct_diff(list(nodes), re_.body)
      if d:
        viol.append(('reparse-differs', 'tree vs. ast.parse(printed text): %s' % d))
    except SyntaxError as e:
      viol.append(('reparse-syntax', 'printed text does not parse: %s' % e))
    # 4. the loaded module file holds exactly that text
    try:
      with open(module.__file__) as fh:
        on_disk = fh.read()
      if on_disk != source:
        viol.append(('file-differs', 'module file %s differs from the unparsed tree' % module.__file__))
    except OSError as e:
      viol.append(('file-missing', str(e)))
      on_disk = source
    # 5. to_code shows the function of that module
    try:
      code = malt.to_code(h.f, experimental_optional_features=of)
      fn_src = textwrap.dedent(inspect.getsource(cf))
      if code != fn_src:
        viol.append(('to_code-differs', 'to_code(f) is not the source of the function to_graph loaded'))
      name = cf.__name__
      want = [n for n in ast.walk(ast.parse(on_disk)) if isinstance(n, ast.FunctionDef) and n.name == name]
      if len(want) != 1:
        viol.append(('to_code-lookup', '%d definitions of %s in the loaded module' % (len(want), name)))
      else:
        d = struct_diff(ast.parse(code).body[0], want[0])
        if d:
          viol.append(('to_code-differs', 'to_code(f) vs. the definition in the loaded module: %s' % d))
    except Exception as e:  # pylint:disable=broad-except
      viol.append(('to_code-raises', '%s: %s' % (type(e).__name__, str(e)[:200])))
    # 6. source map: marked generated lines map to the original line with the same marker
    src_lines = src.splitlines()
    gen_lines = on_disk.splitlines()
    nmapped = 0
    for loc, origin in (source_map or {}).items():
      if loc.filename != module.__file__ or not (1 <= loc.lineno <= len(gen_lines)):
        viol.append(('source-map-key', 'source map key %r is not a line of the generated module' % (loc,)))
        break
      gl = gen_lines[loc.lineno - 1]
      marks = MARK.findall(gl)
      if not marks:
        continue
      nmapped += 1
      ol = origin.loc.lineno
      otext = src_lines[ol - 1] if 1 <= ol <= len(src_lines) else ''
      missing = [m for m in marks if not re.search(r'\b%s\(%s\b' % (m[0], m[1]), otext)]
      if missing and not any(v[0] == 'source-map-line' for v in viol):
        viol.append(('source-map-line', 'generated line %d `%s` maps to original line %d `%s` which lacks %s(%s' % (
            loc.lineno, gl.strip()[:80], ol, otext.strip(), missing[0][0], missing[0][1])))
    # every marked generated line should be mapped at all
    keys = set(l.lineno for l in (source_map or {}))
    for i, gl in enumerate(gen_lines, 1):
      if MARK.search(gl) and i not in keys and not any(v[0] == 'source-map-missing' for v in viol):
        viol.append(('source-map-missing', 'generated line %d `%s` has no source map entry' % (i, gl.strip()[:80])))
    return viol, nmapped
  finally:
    loader.load_ast = orig_load
    h.close()


class _Ident(object):
  def __getitem__(self, k):
    return 7


def check(item):
  src, feats = item_source(item)
  try:
    compile(src, '<gen>', 'exec')
  except SyntaxError:
    return {'n': {'invalid_programs_skipped': 1}}
  viol, nmapped = convert_and_check(src, feats, 'c17')
  out = []
  for kind, msg in viol:
    if item[0] == 'lit':
      where = '%s|%s' % ('+'.join(sorted(set(item[1]))), item[2])
    else:
      where = '%s|%s' % (item[1], ps.skeleton(item[2]))
    sig = '%s|%s|feats=%s|future=%s' % (kind, where, '+'.join(feats), item[-1])
    if kind == 'convert-error':
      sig = '%s|%s|feats=%s|%s' % (kind, where, '+'.join(feats), re.sub(r' at 0x[0-9a-f]+', '', msg)[:120])
    out.append(util.V(sig, '%s under features %s: %s\nprogram:\n%s' % (kind, feats, msg, src), item, source=src))
  return {'viol': out, 'n': {'evaluations': 1, 'programs': 1, 'source_map_lines_checked': nmapped},
          'outcome': src + repr(feats) + repr(sorted(v[0] for v in viol)), 'nontrivial': src + repr(feats),
          'sample': {'source': src, 'features': list(feats)}}


def exhaustive(tier, n):
  return True


def _canary():
  src = 'def f(zo, d):\n    x = t(1, 5)\n    y = t(2, 6)\n    return (0, x, y)\n'
  v, _ = convert_and_check(src, (), 'c17canary', share_constant=True)
  return any(k == 'shared-node' for k, _ in v)


CANARIES = [('tree_oracle_fires_on_a_shared_node', _canary)]
