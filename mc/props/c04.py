"""C04 - every overloadable construct is routed through its operator.

Programs: construct x context chain (templates composed exhaustively).
Oracles: (static) no native if/while/for/break/continue/early return/and/or/
not/ifexp/call survives in the generated code outside the documented
exceptions; (dynamic) operator invocation counts of the monitored run vs.
construct execution counts of the instrumented original on the same tape."""
import ast
import itertools

from mc import backends
from mc import diff
from mc import tape as tapemod
from mc import util

ID = 'C04'
LEVEL = 'exploration'
RULE = ('programs = construct in {if, while, for, break, continue, early return, and, or, not, ifexp, call} placed in every '
        'chain of syntactic contexts up to the bound (statement contexts: loop/if/else/try/except/finally/with/nested-def '
        'bodies; expression contexts: operands of and/or/not/ifexp/comparison/binop, call positional/keyword/starred '
        'arguments, lambda body, comprehension element, subscript, slice, attribute base, f-string, list/tuple/set/dict '
        'display; bridges: assignment, augassign, return, expression statement, if/while test, for iterable, attribute and '
        'subscript targets, default value, decorator); executions = all tapes; distinct_nontrivial = distinct programs')
ASSUMPTIONS = ['documented exceptions are not user constructs: comprehension clauses, with-item expressions, debugger entry '
               'calls, print without BUILTIN_FUNCTIONS, generated tuple()/dict() argument packers, fscope.ret, ag__.* helpers',
               'conversion failures are reported too (kind convert-error)']

_S = {'tier': 'quick'}


def setup(tier, seed):
  from malt.impl import api
  _S['tier'] = tier
  _S['mon'] = mon = backends.Monitor()
  mon.check_restore = False
  _S['tr'] = backends.monitor_transpiler(mon)
  api._TRANSPILER = _S['tr']


class K(object):
  """Site counter."""

  def __init__(self):
    self.n = 0

  def __call__(self):
    self.n += 1
    return self.n


def ind(lines):
  return ['    ' + l for l in lines]


SCTX = {
    'forbody': lambda S, k: ['for i%d in it(%d):' % (k(), k())] + ind(S),
    'whilebody': lambda S, k: ['while c(%d):' % k()] + ind(S),
    'ifbody': lambda S, k: ['if c(%d):' % k()] + ind(S),
    'elsebody': lambda S, k: ['if c(%d):' % k(), '    t(%d)' % k(), 'else:'] + ind(S),
    'trybody': lambda S, k: ['try:'] + ind(S) + ['except E:', '    t(%d)' % k()],
    'exceptbody': lambda S, k: ['try:', '    raise E(mark(%d))' % k(), 'except E:'] + ind(S),
    'finallybody': lambda S, k: ['try:', '    t(%d)' % k(), 'finally:'] + ind(S),
    'withbody': lambda S, k: ['with cm(%d):' % k()] + ind(S),
    'defbody': lambda S, k: (lambda n: ['def g%d():' % n] + ind(S) + ['g%d()' % n])(k()),
}
NO_JUMP_CTX = ('finallybody', 'defbody')

ECTX = {
    'and_l': lambda E, k: '(%s and c(%d))' % (E, k()),
    'and_r': lambda E, k: '(c(%d) and %s)' % (k(), E),
    'or_l': lambda E, k: '(%s or c(%d))' % (E, k()),
    'or_r': lambda E, k: '(c(%d) or %s)' % (k(), E),
    'not': lambda E, k: '(not %s)' % E,
    'ifexp_test': lambda E, k: '(1 if %s else 2)' % E,
    'ifexp_body': lambda E, k: '(%s if c(%d) else 3)' % (E, k()),
    'ifexp_else': lambda E, k: '(4 if c(%d) else %s)' % (k(), E),
    'cmp': lambda E, k: '(%s == 1)' % E,
    'binop': lambda E, k: '(%s + 1)' % E,
    'callarg': lambda E, k: 't(%d, %s)' % (k(), E),
    'callkw': lambda E, k: 'tk(%d, kw=%s)' % (k(), E),
    'callstar': lambda E, k: 't(%d, *[%s])' % (k(), E),
    'lambda': lambda E, k: '(lambda: %s)()' % E,
    'compelt': lambda E, k: '[%s for j in it(%d)]' % (E, k()),
    'subscript': lambda E, k: 'ident[%s]' % E,
    'slice': lambda E, k: 'ident[%s:]' % E,
    'attrbase': lambda E, k: '(%s).real' % E,
    'fstring': lambda E, k: 'f"{ %s }"' % E,   # the spaces keep a display at either end from reading as an escaped brace
    'list': lambda E, k: '[%s]' % E,
    'tuple': lambda E, k: '(%s,)' % E,
    'set': lambda E, k: '{%s}' % E,
    'dictv': lambda E, k: '{1: %s}' % E,
    'unary': lambda E, k: '(-%s)' % E,
    'invert': lambda E, k: '(~%s)' % E,
    'uplus': lambda E, k: '(+%s)' % E,
    # 120 levels below the statement (a left-nested chain): converters must still reach the construct
    'deepchain': lambda E, k: '(%s%s)' % (E, ' + 1' * 120),
    'printarg': lambda E, k: 'print(%s, file=NULLF)' % E,
    'printkw': lambda E, k: 'print(1, end=str(%s), file=NULLF)' % E,
}

BRIDGE = {
    'assign': lambda E, k: ['x = %s' % E],
    'augassign': lambda E, k: ['x += %s' % E],
    'return': lambda E, k: ['return %s' % E],
    'exprstmt': lambda E, k: ['%s' % E],
    'iftest': lambda E, k: ['if %s:' % E, '    t(%d)' % k()],
    'whiletest': lambda E, k: ['while %s:' % E, '    t(%d)' % k(), '    break'],
    'foriter': lambda E, k: ['for j in [%s]:' % E, '    t(%d)' % k()],
    'attrassign': lambda E, k: ['zo.a = %s' % E],
    'subassign': lambda E, k: ['d[%s] = %d' % (E, k())],
    'default': lambda E, k: ['def g(a=%s):' % E, '    return a', 'x = g()'],
    'kwdefault': lambda E, k: ['def g(*, a=%s):' % E, '    return a', 'x = g()'],
    'decorator': lambda E, k: ['@deco(%s)' % E, 'def g():', '    return 1', 'x = g()'],
}

ECONS = {
    'and': lambda k: '(c(%d) and c(%d))' % (k(), k()),
    'or': lambda k: '(c(%d) or c(%d))' % (k(), k()),
    'not': lambda k: '(not c(%d))' % k(),
    'ifexp': lambda k: '(t(%d, 1) if c(%d) else t(%d, 2))' % (k(), k(), k()),
    'call': lambda k: 't(%d, 5)' % k(),
}
SCONS = {
    'if': lambda k: ['if c(%d):' % k(), '    t(%d)' % k()],
    'while': lambda k: ['while c(%d):' % k(), '    t(%d)' % k()],
    'for': lambda k: ['for j in it(%d):' % k(), '    t(%d)' % k()],
    'return': lambda k: ['return x'],
    'break': lambda k: ['break'],
    'continue': lambda k: ['continue'],
}
QUICK_BRIDGES = ('assign', 'return', 'iftest')


def items(tier, seed):
  L = 2 if tier == 'quick' else 3
  sn = sorted(SCTX)
  en = sorted(ECTX)
  bn = sorted(BRIDGE)
  # statement constructs in statement-context chains
  for cons in sorted(SCONS):
    for n in range(0, L + 1):
      for chain in itertools.product(sn, repeat=n):
        if cons in ('break', 'continue') and any(c in NO_JUMP_CTX for c in chain):
          continue
        yield ('S', cons, chain)
  # expression constructs: expression chain + bridge + statement chain
  for cons in sorted(ECONS):
    for n in range(0, L + 1):
      for echain in itertools.product(en, repeat=n):
        for b in (QUICK_BRIDGES if n >= 2 else bn):
          yield ('E', cons, echain, b, ())
    for n in range(0, L):
      for echain in itertools.product(en, repeat=n):
        if n >= 1 and tier == 'quick':
          bridges = ('assign',)
        else:
          bridges = bn
        for b in bridges:
          for s in sn:
            if b == 'return' and s == 'finallybody':
              continue
            yield ('E', cons, echain, b, (s,))


def render(item, pid=0):
  k = K()
  if item[0] == 'S':
    _, cons, chain = item
    S = SCONS[cons](k)
    if cons in ('break', 'continue'):
      S = S + ['t(%d)' % k()]
    for c in reversed(chain):
      S = SCTX[c](S, k)
    if cons in ('break', 'continue'):
      S = ['for i0 in it(%d):' % k()] + ind(S + ['t(%d)' % k()])
  else:
    _, cons, echain, b, schain = item
    E = ECONS[cons](k)
    for c in reversed(echain):
      E = ECTX[c](E, k)
    S = BRIDGE[b](E, k)
    for c in reversed(schain):
      S = SCTX[c](S, k)
  lines = ['def f(zo, d):', '    x = 0'] + ind(S) + ['    t(%d)' % k(), '    return (%d, x)' % pid]
  return '\n'.join(lines) + '\n'


class _NullFile(object):
  def write(self, s):
    return len(s)

  def flush(self):
    pass


class Ident(object):
  def __getitem__(self, k):
    return 7 if isinstance(k, slice) else k


def deco(v):
  def wrap(f):
    return f
  return wrap


# --- static oracle -----------------------------------------------------------

def static_violations(code, print_native_ok=True):
  """Native constructs surviving in generated code (list of (kind, text))."""
  tree = ast.parse(code)
  out = []

  def is_ag(func):
    return isinstance(func, ast.Attribute) and isinstance(func.value, ast.Name) and func.value.id == 'ag__'

  def visit(n, in_exempt, final_ok, packer_ok):
    if isinstance(n, (ast.If, ast.While, ast.For)) and not in_exempt:
      out.append((type(n).__name__.lower(), ast.unparse(n).split('\n')[0]))
    if isinstance(n, (ast.Break, ast.Continue)):
      out.append((type(n).__name__.lower(), ast.unparse(n)))
    if isinstance(n, ast.IfExp) and not in_exempt:
      out.append(('ifexp', ast.unparse(n)))
    if isinstance(n, ast.BoolOp) and not in_exempt:
      out.append(('and' if isinstance(n.op, ast.And) else 'or', ast.unparse(n)))
    if isinstance(n, ast.UnaryOp) and isinstance(n.op, ast.Not) and not in_exempt:
      out.append(('not', ast.unparse(n)))
    if isinstance(n, ast.Return) and not final_ok:
      out.append(('return', ast.unparse(n)))
    if isinstance(n, ast.Call) and not in_exempt:
      f = n.func
      ok = is_ag(f)
      if isinstance(f, ast.Attribute) and isinstance(f.value, ast.Name) and f.attr == 'ret' and (
          f.value.id.startswith('fscope') or f.value.id.startswith('lscope')):
        ok = True
      if packer_ok and isinstance(f, ast.Name) and f.id in ('tuple', 'dict'):
        ok = True
      if isinstance(f, ast.Name) and f.id == 'print' and print_native_ok:
        ok = True
      if (isinstance(f, ast.Call) and is_ag(f.func) and f.func.attr == 'ld' and len(f.args) == 1 and
          isinstance(f.args[0], ast.Name) and f.args[0].id == 'print') and print_native_ok:
        ok = True   # documented: print stays native when builtin overloading is off (its arguments do not)
      if not ok:
        out.append(('call', ast.unparse(n)))
    # recurse
    if isinstance(n, (ast.FunctionDef, ast.Lambda)):
      if isinstance(n, ast.FunctionDef):
        for d in n.decorator_list:
          visit(d, in_exempt, False, False)
        for d in n.args.defaults + [x for x in n.args.kw_defaults if x is not None]:
          visit(d, in_exempt, False, False)
        body_final(n.body, in_exempt)
      else:
        visit(n.body, in_exempt, False, False)
      return
    if isinstance(n, ast.With):
      for it in n.items:
        visit(it.context_expr, True, False, False)   # with-item expressions are documented exceptions
      for s in n.body:
        visit(s, in_exempt, False, False)
      return
    if isinstance(n, (ast.ListComp, ast.SetComp, ast.GeneratorExp, ast.DictComp)):
      for g in n.generators:
        visit(g.iter, True, False, False)
        for c in g.ifs:
          visit(c, True, False, False)
      for fld in ('elt', 'key', 'value'):
        if hasattr(n, fld):
          visit(getattr(n, fld), in_exempt, False, False)
      return
    if isinstance(n, ast.Call) and is_ag(n.func) and n.func.attr == 'converted_call':
      for i, a in enumerate(n.args):
        visit(a, in_exempt, False, i in (1, 2))
      return
    if isinstance(n, ast.BinOp) and packer_ok:
      visit(n.left, in_exempt, False, True)
      visit(n.right, in_exempt, False, True)
      return
    for c in ast.iter_child_nodes(n):
      visit(c, in_exempt, False, False)

  def body_final(stmts, in_exempt):
    """The last statement of a function body (through with-blocks) may be a return."""
    for i, s in enumerate(stmts):
      last = i == len(stmts) - 1
      if last and isinstance(s, ast.Return):
        if s.value is not None:
          visit(s.value, in_exempt, False, False)
      elif last and isinstance(s, ast.With):
        for it in s.items:
          visit(it.context_expr, True, False, False)
        body_final(s.body, in_exempt)
      else:
        visit(s, in_exempt, False, False)
  for s in tree.body:
    visit(s, False, False, False)
  return out


# --- dynamic oracle: construct executions of the original ---------------------

class Counter(ast.NodeTransformer):
  """Instruments the original: counts executions of user constructs."""

  def cnt(self, name, expr):
    if self.in_clause:
      name = name + '@clause'
    return ast.Call(func=ast.Name(id='__cnt', ctx=ast.Load()), args=[ast.Constant(name), expr], keywords=[])

  def stmt_cnt(self, name):
    return ast.Expr(ast.Call(func=ast.Name(id='__cnt', ctx=ast.Load()), args=[ast.Constant(name), ast.Constant(None)], keywords=[]))

  def visit_If(self, node):
    self.generic_visit(node)
    return [self.stmt_cnt('if'), node]

  def visit_While(self, node):
    self.generic_visit(node)
    return [self.stmt_cnt('while'), node]

  def visit_For(self, node):
    self.generic_visit(node)
    return [self.stmt_cnt('for'), node]

  def visit_With(self, node):
    node.body = [x for s in node.body for x in self._as_list(self.visit(s))]
    return node   # with-items excepted

  def _as_list(self, r):
    return r if isinstance(r, list) else [r]

  def visit_BoolOp(self, node):
    self.generic_visit(node)
    name = 'and' if isinstance(node.op, ast.And) else 'or'
    # a chain with n values is n-1 binary operators; count the first when reached, each further one when its left side held
    return self.cnt(name, node)

  def visit_UnaryOp(self, node):
    self.generic_visit(node)
    if isinstance(node.op, ast.Not):
      return self.cnt('not', node)
    return node

  def visit_IfExp(self, node):
    self.generic_visit(node)
    return self.cnt('ifexp', node)

  def visit_Call(self, node):
    self.generic_visit(node)
    if isinstance(node.func, ast.Name) and node.func.id == 'print':
      return self.cnt('call@clause', node) if not self.in_clause else self.cnt('call', node)
    return self.cnt('call', node)

  in_clause = 0

  def _comp(self, node):
    for fld in ('elt', 'key', 'value'):
      if hasattr(node, fld):
        setattr(node, fld, self.visit(getattr(node, fld)))
    # constructs inside comprehension clauses may or may not be routed (documented exception): counted separately
    self.in_clause += 1
    for g in node.generators:
      g.iter = self.visit(g.iter)
      g.ifs = [self.visit(x) for x in g.ifs]
    self.in_clause -= 1
    return node
  visit_ListComp = visit_SetComp = visit_GeneratorExp = visit_DictComp = _comp


def run_item(item, tier, pid, break_static=False):
  from malt.impl import api
  mon = _S['mon']
  api._TRANSPILER = backends.monitor_transpiler(mon)   # fresh cache: generated files are purged after every item
  src = render(item, pid)
  compile(src, '<c04>', 'exec')
  counts_o = {}

  def cnt(name, v):
    counts_o[name] = counts_o.get(name, 0) + 1
    return v
  extra = {'ident': Ident(), 'deco': deco, '__cnt': cnt, 'tk': None, 'NULLF': _NullFile()}
  h = diff.Harness(src, pid, cap=6, extra_globals=extra)
  h.g['tk'] = h.malt.experimental.do_not_convert(lambda s, kw=None: h.env.t(s, kw))
  h.g['ident'] = Ident()
  mon.env = h.env
  viol = []
  outcomes = []
  nexec = 0
  try:
    # instrumented original (same globals)
    tree = ast.parse(src)
    inst = ast.fix_missing_locations(Counter().visit(tree))
    g2 = dict(h.g)
    exec(compile(inst, '<c04inst>', 'exec'), g2)  # pylint:disable=exec-used
    f_inst = g2['f']
    try:
      cf = h.convert(('to_graph', True, ()))
      code = h.malt.to_code(h.f)
    except Exception as e:  # pylint:disable=broad-except
      return src, [('convert-error', 'conversion failed with %s: %s' % (type(e).__name__, str(e).strip().split('\n')[0][:200]), ())], 0, []
    if break_static:
      code = code + '\nif a:\n    pass\n'
    for kind, text in static_violations(code):
      if not any(v[0] == 'native-' + kind for v in viol):
        viol.append(('native-' + kind, 'generated code contains a native %s: %s' % (kind, text[:120]), ()))

    if 'print(' in src:
      # the same function converted afterwards, by the same transpiler, with builtin overloading on: now print goes
      # through the call operator as well (conversions with different option sets must not influence each other)
      try:
        F = h.malt.experimental.Feature
        code2 = h.malt.to_code(h.f, experimental_optional_features=(F.BUILTIN_FUNCTIONS,))
        for kind, text in static_violations(code2, print_native_ok=False):
          if not any(v[0] == 'native-' + kind + '@builtins' for v in viol):
            viol.append(('native-' + kind + '@builtins', 'converted with BUILTIN_FUNCTIONS after a conversion without: generated code contains a native %s: %s' % (kind, text[:120]), ()))
      except Exception as e:  # pylint:disable=broad-except
        viol.append(('convert-error@builtins', 'conversion with BUILTIN_FUNCTIONS failed with %s: %s' % (type(e).__name__, str(e).strip().split('\n')[0][:200]), ()))

    def run_ref():
      mon.enabled = False
      counts_o.clear()
      return h._run(f_inst)

    def on_exec(tp, asked, ref):
      co = dict(counts_o)
      mon.reset()
      mon.enabled = True
      got = h.run(cf, tp)
      mon.enabled = False
      cc = dict(mon.counts)
      outcomes.append((ref, sorted(co.items())))
      dd = diff.first_difference(ref, got)
      if dd:
        if dd[0] != 'log' or 'CMP' in src:
          pass
        if not any(v[0].startswith('behaviour-') for v in viol):
          viol.append(('behaviour-' + dd[0], dd[1], tp))
        return
      if ref[0][0] != 'ret':
        return   # counts are compared on executions that complete (ill-typed operand combinations raise half-way)
      for name, op, exact in (('call', 'converted_call', True), ('for', 'for_stmt', True), ('while', 'while_stmt', True),
                              ('if', 'if_stmt', False), ('and', 'and_', False), ('or', 'or_', False), ('not', 'not_', False),
                              ('ifexp', 'if_exp', False)):
        a, b = co.get(name, 0), cc.get(op, 0)
        opt = co.get(name + '@clause', 0)
        if (exact and not (a <= b <= a + opt)) or (not exact and b < a):
          k = 'count-' + name
          if not any(v[0] == k for v in viol):
            viol.append((k, 'the original executed %d %s construct(s), the converted function invoked %s %d time(s)' % (a, name, op, b), tp))
    nexec, _, _ = tapemod.explore(h.env, run_ref, on_exec, dev=3)
  finally:
    h.close()
  return src, viol, nexec, outcomes


def stable_id(item):
  import hashlib
  return int(hashlib.sha1(repr(item).encode()).hexdigest()[:6], 16) + 1000


def check(item):
  tier = _S['tier']
  src, viol, nexec, outcomes = run_item(item, tier, stable_id(item))
  out = []
  for kind, msg, tp in viol:
    ctx = item[2] if item[0] == 'S' else tuple(item[2]) + (item[3],) + tuple(item[4])
    sig = '%s|%s|%s' % (kind, item[1], '>'.join(ctx[-2:] if item[0] == 'S' else ctx[:2]))
    if kind == 'convert-error' and 'lambda' in ctx and 'decorator' in ctx and 'KeyError: <ast.Lambda' in msg:
      sig = 'convert-error|lambda-in-decorator-of-nested-def'
    out.append(util.V(sig, '%s (construct %s in context %s) on tape %s: %s\nprogram:\n%s' % (
        kind, item[1], '>'.join(ctx), list(tp), msg, src), item, source=src, tape=list(tp)))
  return {'viol': out, 'n': {'evaluations': max(nexec, 1), 'programs': 1, 'executions': nexec},
          'outcome': repr(outcomes), 'nontrivial': src, 'sample': {'item': repr(item), 'source': src}}


def exhaustive(tier, n):
  return True


def _canary():
  v = run_item(('S', 'if', ()), 'quick', 999, break_static=True)[1]
  return any(k[0] == 'native-if' for k in v)


CANARIES = [('static_oracle_fires_on_a_native_if', _canary)]
DETERMINISTIC = True
