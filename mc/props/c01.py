"""C01 - conversion preserves Python semantics under the default operators.

Programs: exhaustive enumeration (E1) of several focused menus up to a size
bound x prologue/epilogue variants; executions: all environment tapes (E2);
oracle: the unconverted function on the same tape (return value / exception
type, ordered effect log, post-state of mutable arguments and globals)."""
import itertools

from mc import diff
from mc import progspace as ps
from mc import tape as tapemod
from mc import util

ID = 'C01'
LEVEL = 'exploration'
RULE = ('programs = every statement list of the menus below up to the stated size x prologue (which variables are '
        'pre-assigned) x epilogue (which are returned) x configuration; executions = every environment tape up to the '
        'cap/deviation bound; distinct_nontrivial = distinct programs (source text) containing at least one compound '
        'statement or jump; oracle = unconverted function on the same tape')
ASSUMPTIONS = ['conditions and iterables are environment oracles (tape), so paths are enumerated independently of data',
               'when the explicit raise escapes only the exception type and the effects up to the raise are compared (property text)',
               'unbound reads only require some NameError on both sides (property text)']

M = ps.Menu
MENUS = {
    # name: menu
    'core': M('core', ('W', 'R', 'RW', 'ret', 'brk', 'cont'), ('if', 'ifelse', 'while', 'for'), for_targets=('i', 'x')),
    'jumps': M('jumps', ('RW', 'ret', 'brk', 'cont'), ('if', 'ifelse', 'while', 'for'), vars_=('x',), depth=4, for_targets=('i',)),
    'try': M('try', ('RW', 'R', 'ret', 'brk', 'cont', 'raise'), ('if', 'while', 'for', 'tryex', 'tryfin', 'tryexfin', 'with'),
             vars_=('x',), for_targets=('i',), ret=('x',)),
    'clos': M('clos', ('W', 'RW', 'DEFR', 'DEFW', 'LAM', 'CALL', 'ret'), ('if', 'while', 'for'), vars_=('x',), for_targets=('i',), ret=('x',)),
    'expr': M('expr', ('AND', 'OR', 'NOT', 'IFEXP', 'CMP', 'COMP', 'R'), ('if', 'while'), vars_=('x',), ret=('x',)),
    'state': M('state', ('ATTR', 'SUB', 'RATTR', 'RSUB', 'AUG', 'TUP', 'DEL', 'R', 'brk', 'ret'), ('if', 'while', 'for'),
               for_targets=('xy', 'x'), ret=('x',)),
    'callee': M('callee', ('CALLH', 'RW', 'brk'), ('if', 'while', 'for'), vars_=('x',), for_targets=('i',)),
    # a local function reached through an alias / through another local function; captures two levels down
    'alias': M('alias', ('W', 'DEFR', 'ALIAS', 'CALLK'), ('if', 'while'), vars_=('x',), ret=('x',)),
    'trans': M('trans', ('W', 'DEFW', 'DEFT', 'CALLT'), ('if', 'while'), vars_=('x',), ret=('x',)),
    'deep': M('deep', ('W', 'RW', 'DEF2R', 'DEF2W', 'CALL'), ('if', 'while', 'for'), vars_=('x',), for_targets=('i',), ret=('x',)),
    # functools.partial with a bound keyword, called with and without a further call-site keyword
    'partial': M('partial', ('MKP', 'CALLP', 'CALLP0', 'brk'), ('if', 'while'), vars_=('x',)),
    # subscript stores whose index is an attribute / element of an object variable first bound in the same block
    'compidx': M('compidx', ('BINDP', 'SUBPA', 'RSUB', 'RATTR'), ('if', 'while', 'for'), for_targets=('i',)),
    # p is bound in a try body after a statement that raises (so it is really unbound afterwards, no placeholder), then used
    # as the base of a composite inside control flow; programs are the fixed prefix + every block of the menu (see programs())
    'trybind': M('trybind', ('SUBPA', 'RSUB'), ('if', 'while', 'for'), for_targets=('i',)),
    # a return whose expression raises KeyError, caught by a handler of the same function (nothing assigned in between)
    'retraise': M('retraise', ('RETK', 'RW', 'R'), ('tryK', 'if', 'while'), vars_=('x',), ret=('x',)),
    # subscript store whose index is a plain name first bound in the same block
    'nameidx': M('nameidx', ('BINDJ', 'SUBJ', 'RSUB'), ('if', 'while', 'for'), for_targets=('i',)),
    # nested / starred loop targets
    'targets': M('targets', ('RW', 'R', 'brk'), ('if', 'for'), for_targets=('nest', 'star'), ret=('x',)),
    'glob': M('glob', ('W', 'RW', 'R', 'brk', 'ret'), ('if', 'while', 'for'), vars_=('G',), for_targets=('i', 'G'), ret=('G',)),
}

ALL_PRO = ((), ('x',), ('x', 'y'))
ALL_EPI = ((), ('x',), ('x', 'y'))

BASE = ('to_graph', True, ())
CONFIGS = [
    ('to_graph', True, ()),
    ('convert', True, ()),
    ('to_graph', False, ()),
    ('convert', False, ()),
    ('to_graph', True, ('BUILTIN_FUNCTIONS',)),
    ('to_graph', True, ('EQUALITY_OPERATORS',)),
    ('convert', True, ('BUILTIN_FUNCTIONS', 'EQUALITY_OPERATORS')),
    ('to_graph', False, ('BUILTIN_FUNCTIONS', 'EQUALITY_OPERATORS')),
]

# (menu, max size, prologues, epilogues)
PLAN = {
    'quick': [
        ('core', 2, ALL_PRO, ALL_EPI),
        ('core', 3, (('x', 'y'), ('x',)), (('x',), ('x', 'y'))),
        ('jumps', 4, (('x',),), (('x',),)),
        ('try', 3, (('x',),), (('x',),)),
        ('clos', 3, (('x',),), (('x',),)),
        ('expr', 3, (('x',),), (('x',),)),
        ('state', 3, (('x', 'y'),), (('x', 'y'),)),
        ('callee', 3, (('x',),), (('x',),)),
        ('glob', 3, ((), ('G',)), (('G',), ())),     # () : the global is only assigned, never read again by the function
        ('alias', 4, (('x',),), ((),)),
        ('trans', 4, (('x',),), ((),)),
        ('deep', 3, (('x',),), ((), ('x',))),
        ('partial', 4, (('x',),), (('x',),)),
        ('targets', 3, (('x', 'y'),), (('x', 'y'), ())),
        ('compidx', 4, ((),), ((),)),
        ('trybind', 3, ((),), ((),)),
        ('retraise', 4, (('x',),), (('x',),)),
        ('nameidx', 4, ((),), ((),)),
    ],
    'thorough': [
        ('core', 3, ALL_PRO, ALL_EPI),
        ('core', 4, (('x', 'y'),), (('x',), ('x', 'y'))),
        ('jumps', 5, (('x',), ()), (('x',),)),
        ('try', 4, (('x',),), (('x',),)),
        ('clos', 4, (('x',), ()), (('x',),)),
        ('expr', 4, (('x',),), (('x',),)),
        ('state', 4, (('x', 'y'),), (('x', 'y'),)),
        ('callee', 4, (('x',),), (('x',),)),
        ('glob', 4, ((), ('G',)), (('G',), ())),
        ('alias', 5, (('x',),), ((), ('x',))),
        ('trans', 5, (('x',),), ((), ('x',))),
        ('deep', 4, (('x',), ()), ((), ('x',))),
        ('partial', 5, (('x',),), (('x',),)),
        ('targets', 4, (('x', 'y'), ()), (('x', 'y'), ())),
        ('compidx', 5, ((),), ((),)),
        ('trybind', 4, ((),), ((),)),
        ('retraise', 5, (('x',),), (('x',),)),
        ('nameidx', 5, ((),), ((),)),
    ],
}
CAP = {'quick': 6, 'thorough': 7}
DEV = {'quick': 3, 'thorough': 4}
_S = {'tier': 'quick'}


def setup(tier, seed):
  _S['tier'] = tier


def _preorder_kinds(body):
  for st in body:
    yield st[0]
    for part in st[1:]:
      if isinstance(part, tuple) and part and isinstance(part[0], tuple):
        for k in _preorder_kinds(part):
          yield k


def _reads_p_before_binding_it(body):
  """compidx menu: `p` is local as soon as the function binds it anywhere; a subscript store through p that textually
  precedes the first binding would raise UnboundLocalError whenever it runs - such programs are not generated."""
  ks = list(_preorder_kinds(body))
  if 'BINDJ' in ks and 'SUBJ' in ks[:ks.index('BINDJ')]:
    return True
  return 'BINDP' in ks and any(k in ('SUBPA', 'SUBPI') for k in ks[:ks.index('BINDP')])


def programs(tier, plan=None):
  """(menu name, body, pro, epi) - deterministic order, simplest first."""
  seen_upto = {}
  for name, maxn, pros, epis in (plan or PLAN[tier]):
    menu = MENUS[name]
    for n in range(1, maxn + 1):
      for body in ps.blocks(n, menu):
        if name in ('compidx', 'nameidx') and _reads_p_before_binding_it(body):
          continue
        if name == 'trybind':
          body = (('try', (('raise',), ('BINDP',)), (('PASS',),), None),) + body
        for pro in pros:
          for epi in epis:
            key = (name, n, pro, epi)
            yield (name, body, pro, epi)


# a "syntax zoo": single-line statements of many syntactic forms (one or two per program, plain / in an if / in a while),
# run differentially like every other program
ZOO = {
    'NEG': 'x = -%(k)d', 'FSTR': 'x = f"{x!r:>{%(k)d}}{f\'{x}\'}"', 'TSUB': 'x = ident[%(k)d, x]', 'STAR': 'x = [*L, x]',
    'STARCALL': 'x = t(%(k)d, *L, **DD)', 'WALRUS': 'x = (w := x)', 'CHAIN': 'x = 1 < x < %(k)d',
    'LAMDEF': 'x = (lambda a=x, *b, c=%(k)d, **e: (a, b, c))()', 'DSTAR': "x = {**DD, 'k': x}", 'SLICE': 'x = L[1:x:2]',
    'LAPPEND': 'l.append(x)', 'LPOP': 'x = l.pop()', 'SUBSTATE': 'stacks[0] = stacks[0] + [%(k)d]', 'EQ': 'x = x == %(k)d',
    'BUILTIN': 'x = len(range(abs(x)))', 'SETC': 'x = {j for j in L if j != x}', 'DICTC': 'x = {j: x for j in L}',
    'GENEXP': 'x = list(j + 1 for j in L)', 'ANNASSIGN': 'y: int = x', 'POW': 'x = x if x else -x ** -2', 'STARASSIGN': 'x, *l = L',
    'SWAPSUB': 'stacks[0], stacks[1] = stacks[1], stacks[0]', 'AUGSUB': 'stacks[0] += [x]', 'AUGATTR': 'zo.a += %(k)d', 'DELSUB': 'del l[0]',
    'NESTCOMP': 'x = [[i * j for i in L] for j in L]', 'DICTGET': "x = DD.get('z', x)", 'METHCHAIN': "x = 'a-b'.upper().split('-')",
    'FSTRCALL': 'x = f"{len(L)}:{x}"', 'LAMCALL': 'x = (lambda q: q + 1)(x)', 'SORTKEY': 'x = sorted(L, key=lambda v: -v)',
    'BOOLCHAIN': 'x = x and L or DD', 'NOTIN': 'x = x not in L', 'ISNONE': 'x = x is None', 'NEGSUB': 'stacks[-1] = stacks[-1] + [%(k)d]',
    'ZIPENUM': 'x = [a + b for a, (b, _) in zip(L, enumerate(L))]', 'TERN': 'x = t(%(k)d, 1) if x else t(%(k)d, 2)',
    'MAPFILTER': 'x = list(map(abs, filter(None, L)))', 'ANYALL': 'x = any(L) and all(L)', 'INTFLOAT': "x = int('7') + float('1.5')",
}
ZOO_FEATS = [(), ('BUILTIN_FUNCTIONS',), ('EQUALITY_OPERATORS',), ('BUILTIN_FUNCTIONS', 'EQUALITY_OPERATORS')]


def zoo_source(item):
  _, combo, ctx, idx = item
  k = [0]

  def site():
    k[0] += 1
    return k[0]
  stm = [ZOO[c] % {'k': site() + 1} for c in combo]
  if ctx == 'plain':
    body = stm
  elif ctx == 'while':
    body = ['while c(%d):' % site()] + ['    ' + s for s in stm]
  else:
    body = ['if c(%d):' % site()] + ['    ' + s for s in stm] + ['else:', '    x = t(%d, x)' % site()]
  return ('def f(zo, d):\n    x = 2\n    l = [1]\n    stacks = [[], []]\n' + ''.join('    %s\n' % b for b in body) +
          '    return (%d, x, l, stacks)\n' % (idx + 5000000))


class _Ident(object):
  def __getitem__(self, k):
    return 7


def zoo_globals():
  return {'ident': _Ident(), 'L': [3, 1, 2], 'DD': {'z': 1}}


def items(tier, seed):
  seen = set()
  i = 0
  for name, body, pro, epi in programs(tier):
    k = (name, body, pro, epi)
    if k in seen:
      continue
    seen.add(k)
    # every program runs under the base configuration plus one rotating configuration
    yield (name, body, pro, epi, i)
    i += 1
  import itertools
  zk = sorted(ZOO)
  for n in ((1, 2) if tier == 'quick' else (1, 2, 3)):
    for combo in itertools.product(zk, repeat=n):
      if n == 3 and len(set(combo)) < 3:
        continue
      for ctx in (('plain', 'if', 'while') if n == 1 else (('if', 'while')[i % 2],)):
        yield ('zoo', combo, ctx, i)
        i += 1


def item_source(item):
  name, body, pro, epi, idx = item
  menu = MENUS[name]
  pro = tuple(v for v in pro if v in menu.vars or v in ('x', 'y') and name != 'glob')
  return ps.source(body, pro=pro, epi=epi, pid=idx + 1000, declare_global=(name == 'glob'), helpers=(name in ('callee', 'partial')))


def item_configs(item, tier):
  idx = item[4]
  if tier == 'thorough':
    alt = [CONFIGS[1 + idx % (len(CONFIGS) - 1)], CONFIGS[1 + (idx // 7 + 3) % (len(CONFIGS) - 1)]]
  else:
    alt = [CONFIGS[1 + idx % (len(CONFIGS) - 1)]]
  return [BASE] + [c for c in dict.fromkeys(alt) if c != BASE]


def run_program(src, pid, configs, cap, dev, want_first_only=True, extra_globals=None):
  """Returns (violations [(kind, msg, config, tape)], nexec, ncap, outcomes, truncated)."""
  h = diff.Harness(src, pid, cap=cap, extra_globals=extra_globals)
  viol = []
  outcomes = []
  nexec = ncap = 0
  trunc = False
  try:
    conv = []
    for cfg in configs:
      try:
        conv.append((cfg, h.convert(cfg)))
      except Exception as e:  # pylint:disable=broad-except
        viol.append(('convert-error', 'conversion failed with %s: %s' % (type(e).__name__, str(e).strip().split('\n')[0][:200]), cfg, ()))
    if conv:
      def run_ref():
        return h._run(h.f)

      def on_exec(tp, asked, ref):
        outcomes.append(ref)
        for cfg, cf in conv:
          if any(v[2] == cfg for v in viol):
            continue
          got = h.run(cf, tp)
          if h.env.asked != list(asked) and got == ref:
            viol.append(('choice-points', 'same outcome but different sequence of environment questions', cfg, tp))
            continue
          dd = diff.first_difference(ref, got)
          if dd:
            viol.append((dd[0], dd[1], cfg, tp))
      nexec, ncap, trunc = tapemod.explore(h.env, run_ref, on_exec, dev=dev)
  finally:
    h.close()
  return viol, nexec, ncap, outcomes, trunc


def run_reduced(name, body, pro, epi, cfg):
  """Runs a candidate witness (rendered with pid 0); returns its first violation or None."""
  it2 = (name, body, pro, epi, -1000)
  try:
    src = item_source(it2)
    compile(src, '<reduce>', 'exec')
  except SyntaxError:
    return None
  try:
    viol, _, _, _, _ = run_program(src, 'red', [cfg], CAP[_S['tier']], DEV[_S['tier']])
  except tapemod.TapeError:
    return None
  return viol[0] if viol else None


def reduce_witness(item, cfg, kind):
  """Greedy 1-minimal reduction keeping the same kind of first difference.
  Returns (body, pro, epi, violation-of-the-reduced-program)."""
  name, body, pro, epi, _ = item
  best = run_reduced(name, body, pro, epi, cfg)
  if best is None or best[0] != kind:
    return body, pro, epi, None
  changed = True
  steps = 0
  while changed and steps < 60:
    changed = False
    cands = [(b, pro, epi) for b in ps.reductions(body)]
    cands += [(body, tuple(v for v in pro if v != d), epi) for d in pro]
    cands += [(body, pro, tuple(v for v in epi if v != d)) for d in epi]
    for b, p, e in cands:
      steps += 1
      v = run_reduced(name, b, p, e, cfg)
      if v is not None and v[0] == kind:
        body, pro, epi, best = b, p, e, v
        changed = True
        break
  return body, pro, epi, best


def _subst_kind(body, old, new):
  out = []
  for st in body:
    if st[0] == old:
      out.append((new,) + tuple(st[1:]))
    else:
      out.append(tuple(_subst_kind(p, old, new) if isinstance(p, tuple) and p and isinstance(p[0], tuple) else p for p in st))
  return tuple(out)


def _has_kind_deep(body, kinds):
  for st in body:
    if st[0] in kinds:
      return True
    for p in st[1:]:
      if isinstance(p, tuple) and p and isinstance(p[0], tuple) and _has_kind_deep(p, kinds):
        return True
  return False


def lambda_liveness_class(name, rb, rp, re_, cfg):
  """Known root cause (liveness.Analyzer.lamba_check: "lambda functions are assumed to be used only in the place where
  they are defined"): recognised on the 1-minimal witness by (a) it binds a lambda to a name, (b) it still needs a
  control-flow statement (a lambda that is converted wrongly as such reduces to `g = lambda: ...; g()`), and (c) the
  same program with `def g(): return ...` in place of the lambda shows no difference."""
  if not _has_kind_deep(rb, ('LAM',)) or not _has_kind_deep(rb, ('if', 'while', 'for')):
    return False
  return run_reduced(name, _subst_kind(rb, 'LAM', 'DEFR'), rp, re_, cfg) is None


def check_zoo(item):
  tier = _S['tier']
  _, combo, ctx, idx = item
  src = zoo_source(item)
  configs = [('to_graph', True, ZOO_FEATS[idx % 4]), ('convert', True, ZOO_FEATS[(idx // 4 + 1) % 4])]
  configs = list(dict.fromkeys(configs))
  viol, nexec, ncap, outcomes, trunc = run_program(src, idx, configs, CAP[tier], DEV[tier], extra_globals=zoo_globals())
  out = []
  seen = set()
  for kind, msg, cfg, tp in viol:
    if kind in seen:
      continue
    seen.add(kind)
    if kind == 'exception-type' and cfg[0] == 'convert' and msg.endswith('converted raises StagingError'):
      # implicit errors (IndexError, ZeroDivisionError ...) leaving a convert() wrapper are re-created from their message; which
      # types survive that is the subject of C12 (error re-creation rules), not of this check
      continue
    # signature: the smallest sub-combination (single statement first) that still shows this kind of difference
    where = '+'.join(combo)
    for sub in [(c,) for c in combo]:
      s2 = zoo_source(('zoo', sub, ctx, idx))
      try:
        v2 = run_program(s2, 'zred', [cfg], CAP[tier], DEV[tier], extra_globals=zoo_globals())[0]
      except Exception:  # pylint:disable=broad-except
        v2 = []
      if any(x[0] == kind for x in v2):
        where = sub[0]
        break
    out.append(util.V('%s|zoo|%s|%s|%s' % (kind, where, ctx, '+'.join(cfg[2])), '%s under %s on tape %s: %s\nprogram:\n%s' % (kind, cfg, list(tp), msg, src),
                      item, source=src, config=cfg, tape=list(tp)))
  return {'viol': out,
          'n': {'evaluations': nexec * (1 + len(configs)), 'programs': 1, 'executions': nexec, 'conversions': len(configs),
                'tape_cap_hits': ncap, 'exploration_truncated': int(trunc)},
          'outcome': repr(outcomes), 'nontrivial': src, 'sample': {'menu': 'zoo', 'source': src}}


def check(item):
  tier = _S['tier']
  if item[0] == 'zoo':
    return check_zoo(item)
  name, body, pro, epi, idx = item
  src = item_source(item)
  try:
    compile(src, '<item>', 'exec')
  except SyntaxError:
    # e.g. `nonlocal x` in a local function when the program never binds x
    return {'viol': [], 'n': {'invalid_programs_skipped': 1}}
  configs = item_configs(item, tier)
  viol, nexec, ncap, outcomes, trunc = run_program(src, idx, configs, CAP[tier], DEV[tier])
  out = []
  seen_kinds = set()
  for kind, msg, cfg, tp in viol:
    if kind in seen_kinds:
      continue
    seen_kinds.add(kind)
    rb, rp, re_, rv = reduce_witness(item, cfg, kind)
    rsrc = item_source((name, rb, rp, re_, -1000))
    if rv is not None and lambda_liveness_class(name, rb, rp, re_, cfg):
      sig = 'lambda-bound-to-a-name-and-called-after-control-flow-that-rebinds-its-captured-variable'
      rtape = list(rv[3])
    elif rv is not None:
      sig = '%s|%s|%s|pro=%s|epi=%s|%s' % (kind, name, ps.skeleton(rb), ''.join(rp), ''.join(re_), rv[1])
      rtape = list(rv[3])
    else:
      sig = '%s|%s|%s|pro=%s|epi=%s|unreduced' % (kind, name, ps.skeleton(body), ''.join(pro), ''.join(epi))
      rtape = list(tp)
    out.append(util.V(sig, '%s under %s on tape %s: %s\nreduced witness (tape %s):\n%s' % (kind, cfg, list(tp), msg, rtape, rsrc), item,
                      source=src, config=cfg, tape=list(tp), reduced_source=rsrc, reduced_tape=rtape))
  nontriv = any(s[0] in ('if', 'while', 'for', 'try', 'with', 'ret', 'brk', 'cont') for s in body)
  return {
      'viol': out,
      'n': {'evaluations': nexec * (1 + len(configs)), 'programs': 1, 'executions': nexec, 'conversions': len(configs),
            'tape_cap_hits': ncap, 'exploration_truncated': int(trunc)},
      'outcome': repr(outcomes),
      'nontrivial': src if nontriv else None,
      'sample': {'menu': name, 'source': src, 'configs': [list(c) for c in configs], 'tapes_explored': nexec},
  }


def exhaustive(tier, n):
  return n.get('tape_cap_hits', 0) == 0 and n.get('exploration_truncated', 0) == 0
