"""C03 - emitted operator calls obey the operator calling contract.

The C01 program/tape space (plus a loop-directive variant of every program
with a loop) is executed with the monitor backend (E4): every dynamic
if_stmt/while_stmt/for_stmt/if_exp/and_/or_/not_ invocation is checked against
the documented contract, and the result must still equal the original's."""
import ast

from mc import backends
from mc import diff
from mc import progspace as ps
from mc import tape as tapemod
from mc import util
from mc.props import c01

ID = 'C03'
LEVEL = 'exploration'
RULE = ('programs = C01 menus (core, jumps, try, clos, expr, state, callee) up to the size bound, each program with a loop '
        'also in a variant whose loops start with set_loop_options(<maximum_iterations | parallel_iterations, alternating>=<loop id>); executions = all tapes; '
        'every dynamic operator invocation is checked (name/getter/setter length and positions, getter purity, set(get) '
        'identity, write-then-read round trip, callback arities, nouts range, input-only entries restored after if_stmt '
        '("outputs first"), opts = iterate_names + exactly the directives of that loop, lazy and_/or_/if_exp); '
        'distinct_nontrivial = distinct programs with at least one operator invocation')
ASSUMPTIONS = ['an Undefined entry is the unbound state: identity and round-trip checks skip entries that are Undefined at that moment',
               'the "outputs first" restore check is not applied to the global-variable menu (a global modified in a branch is '
               'observable outside although it is input-only for the function)',
               'loops are matched to their directives through the environment site of their test / iterable',
               'a variable captured only by a lambda that is called after its defining statement is not operator state: documented '
               'lambda limitation (limitations.md); such cases are recognised on the reduced witness (the same program with a def '
               'instead of the lambda passes) and counted, not reported']

PLAN = {
    'quick': [('core', 3, (('x', 'y'),), (('x',), ('x', 'y'))), ('jumps', 4, (('x',),), (('x',),)), ('try', 3, (('x',),), (('x',),)),
              ('clos', 3, (('x',),), (('x',),)), ('expr', 3, (('x',),), (('x',),)), ('state', 3, (('x', 'y'),), (('x', 'y'), ())),
              ('callee', 2, (('x',),), (('x',),)), ('compidx', 4, ((),), ((),)), ('trybind', 3, ((),), ((),)), ('nameidx', 4, ((),), ((),)), ('alias', 3, (('x',),), ((),)), ('targets', 3, (('x', 'y'),), ((),))],
    'thorough': [('core', 4, (('x', 'y'),), (('x',), ('x', 'y'))), ('jumps', 5, (('x',),), (('x',),)), ('try', 4, (('x',),), (('x',),)),
                 ('clos', 4, (('x',),), (('x',),)), ('expr', 4, (('x',),), (('x',),)), ('state', 4, (('x', 'y'),), (('x', 'y'), ())),
                 ('callee', 3, (('x',),), (('x',),)), ('compidx', 5, ((),), ((),)), ('trybind', 4, ((),), ((),)), ('nameidx', 5, ((),), ((),)), ('alias', 4, (('x',),), ((),)),
                 ('targets', 4, (('x', 'y'),), ((),))],
}
CAP = c01.CAP
DEV = c01.DEV
_S = {'tier': 'quick'}


def setup(tier, seed):
  from malt.impl import api
  import malt
  _S['tier'] = tier
  _S['mon'] = mon = backends.Monitor()
  _S['tr'] = backends.monitor_transpiler(mon)
  api._TRANSPILER = _S['tr']   # recursively converted callees see the monitored operators as well
  _S['setopts'] = malt.experimental.set_loop_options


def has_loop(body):
  return ps.contains_kind(body, ('while', 'for'))


def items(tier, seed):
  i = 0
  for name, body, pro, epi in c01.programs(tier, PLAN[tier]):
    yield (name, body, pro, epi, i, 0)
    i += 1
    if has_loop(body):
      yield (name, body, pro, epi, i, 1)
      i += 1


def item_source(item):
  name, body, pro, epi, idx, dirs = item
  return ps.source(body, pro=pro, epi=epi, pid=idx + 1000, helpers=(name == 'callee'), directives=bool(dirs))


def for_targets(src):
  out = {}
  for n in ast.walk(ast.parse(src)):
    if isinstance(n, ast.For) and isinstance(n.iter, ast.Call) and getattr(n.iter.func, 'id', '') in ('it', 'it2', 'it3'):
      out[n.iter.args[0].value] = ast.unparse(n.target)
  return out


def run_program(src, pid, name, dirs, cap, dev, canary=False):
  mon = _S['mon']
  h = diff.Harness(src, pid, cap=cap, extra_globals={'setopts': _S['setopts']})
  mon.env = h.env
  mon.expect_directives = bool(dirs)
  mon.check_restore = (name != 'glob')
  mon.break_and = canary
  h.env.for_targets = for_targets(src)
  viol = []
  outcomes = []
  nexec = ncap = 0
  trunc = False
  ninv = [0]
  try:
    try:
      cf = h.convert(('to_graph', True, ()))
    except Exception as e:  # pylint:disable=broad-except
      return [('convert-error', 'conversion failed with %s: %s' % (type(e).__name__, str(e).strip().split('\n')[0][:200]), ())], 0, 0, False, [], 0

    def run_ref():
      mon.enabled = False
      return h._run(h.f)

    def on_exec(tp, asked, ref):
      outcomes.append(ref)
      mon.reset()
      mon.enabled = True
      restore = mon.check_restore
      mon.check_restore = False
      plain = h.run(cf, tp)          # contract checks only
      first_viol = list(mon.viol)
      ninv[0] += sum(v for k, v in mon.counts.items() if k != 'converted_call')
      mon.check_restore = restore
      got = h.run(cf, tp) if restore else plain   # additionally restoring the non-output entries after every if_stmt
      mon.enabled = False
      for kind, msg in first_viol + mon.viol:
        if not any(v[0] == kind for v in viol):
          viol.append((kind, msg, tp))
      dd = diff.first_difference(plain, got)
      if dd and not any(v[0].startswith('outputs-first') for v in viol):
        viol.append(('outputs-first-' + dd[0], 'restoring the entries at positions >= nouts after every if_stmt changes the behaviour: ' + dd[1], tp))
    nexec, ncap, trunc = tapemod.explore(h.env, run_ref, on_exec, dev=dev)
  finally:
    h.close()
    mon.break_and = False
  return viol, nexec, ncap, trunc, outcomes, ninv[0]


def reduce_witness(item, kind):
  name, body, pro, epi, idx, dirs = item

  def fails(b, p, e):
    it2 = (name, b, p, e, -1000, dirs)
    try:
      src = item_source(it2)
      compile(src, '<r>', 'exec')
    except SyntaxError:
      return None
    try:
      v = run_program(src, 'red', name, dirs, CAP[_S['tier']], DEV[_S['tier']])[0]
    except tapemod.TapeError:
      return None
    for x in v:
      if x[0] == kind:
        return x
    return None
  best = fails(body, pro, epi)
  if best is None:
    return body, pro, epi, None
  reduce_witness.fails = fails
  changed = True
  steps = 0
  while changed and steps < 60:
    changed = False
    cands = [(b, pro, epi) for b in ps.reductions(body)]
    cands += [(body, tuple(v for v in pro if v != d), epi) for d in pro]
    cands += [(body, pro, tuple(v for v in epi if v != d)) for d in epi]
    for b, p, e in cands:
      steps += 1
      v = fails(b, p, e)
      if v is not None:
        body, pro, epi, best, changed = b, p, e, v, True
        break
  return body, pro, epi, best


def _contains(st, kinds):
  return c01._has_kind_deep((st,), kinds)


def composite_base_maybe_unbound(body, seen_bind=False):
  """Known class (known_findings.json): a composite state entry d[p.key] whose base p is bound on SOME path before the
  statement (so the entry is legitimate state) but unbound on the path taken: get_state() yields Undefined for it and
  set_state() of that value stores through the Undefined placeholder of p.  Recognised on the reduced witness: the
  statement using d[p.key] does not bind p itself and a statement before it does."""
  for st in body:
    if st[0] in ('SUBPA', 'SUBPI', 'SUBJ'):
      continue
    blocks = [p for p in st[1:] if isinstance(p, tuple) and p and isinstance(p[0], tuple)]
    if blocks and _contains(st, ('SUBPA', 'SUBPI', 'SUBJ')):
      if not _contains(st, ('BINDP', 'BINDJ')):
        if seen_bind:
          return True
      else:
        for b in blocks:
          if composite_base_maybe_unbound(b, seen_bind):
            return True
    if _contains(st, ('BINDP', 'BINDJ')):
      seen_bind = True
  return False


def check(item):
  tier = _S['tier']
  name, body, pro, epi, idx, dirs = item
  src = item_source(item)
  viol, nexec, ncap, trunc, outcomes, ninv = run_program(src, idx, name, dirs, CAP[tier], DEV[tier])
  out = []
  seen = set()
  lam_limit = 0
  known_here = False
  # (the identity kinds first: a failed restore of the monitor's own round trip is a consequence of the same junk key)
  viol = sorted(viol, key=lambda v: (not v[0].startswith(('set-state-identity', 'set-state-raises-unbound')), v[0]))
  for kind, msg, tp in viol:
    if kind in seen:
      continue
    seen.add(kind)
    rb, rp, re_, rv = reduce_witness(item, kind)
    if (rv is not None and c01._has_kind_deep(rb, ('LAM',)) and c01._has_kind_deep(rb, ('if', 'while', 'for')) and
        reduce_witness.fails(c01._subst_kind(rb, 'LAM', 'DEFR'), rp, re_) is None):
      # documented limitation (limitations.md, "Variables closed over by lambda functions"): a lambda is assumed to be
      # used in the statement that creates it, so a variable it captures is not operator state; the same program with a
      # `def` in place of the lambda shows nothing
      lam_limit += 1
      continue
    rsrc = item_source((name, rb, rp, re_, -1000, dirs))
    sig = '%s|%s|%s|pro=%s|epi=%s|dir=%d|%s' % (kind, name, ps.skeleton(rb), ''.join(rp), ''.join(re_), dirs, rv[1] if rv else 'unreduced')
    if rv is not None and (kind in ('set-state-identity-base-in-state', 'set-state-raises-unbound-base') or (kind == 'set-state-identity' and composite_base_maybe_unbound(rb))
                           or (kind == 'state-restore' and known_here)):
      sig = 'set-state-identity|composite-entry-whose-base-variable-is-unbound-on-the-path-taken'
      known_here = True
    out.append(util.V(sig, '%s on tape %s: %s\nreduced witness:\n%s' % (kind, list(tp), msg, rsrc), item, source=src, tape=list(tp)))
  return {'viol': out,
          'n': {'evaluations': ninv, 'programs': 1, 'executions': nexec, 'operator_invocations_checked': ninv,
                'tape_cap_hits': ncap, 'exploration_truncated': int(trunc), 'documented_lambda_limitation_cases': lam_limit},
          'outcome': repr(outcomes), 'nontrivial': src if ninv else None,
          'sample': {'source': src, 'operator_invocations': ninv, 'tapes_explored': nexec}}


def exhaustive(tier, n):
  return n.get('tape_cap_hits', 0) == 0 and n.get('exploration_truncated', 0) == 0


def _canary():
  """An eager and_ in the harness configuration must be reported by the laziness oracle."""
  src = 'def f(o, d):\n    x = t(1, c(2)) and t(3, c(4))\n    return (77001, x)\n'
  v = run_program(src, 'canary', 'expr', 0, 6, 3, canary=True)[0]
  return any(k[0] in ('lazy-and',) for k in v)


CANARIES = [('monitor_fires_on_an_eager_and', _canary)]
