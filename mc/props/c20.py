"""C20 - conversion options survive embedding in generated code and key the caches.

The space is finite (2^3 flags x 2^7 feature subsets = 1024 values) and is
enumerated completely: one item per value; each item compares the value with
all 1024 values (eq/hash), round-trips its AST form, checks call_options(),
uses(), the alternative spellings, and - for the values a FunctionScope
accepts - the options expression actually embedded in generated code.
"""
import ast
import inspect
import itertools
import linecache

ID = 'C20'
LEVEL = 'exploration'
RULE = ('complete enumeration of 2^3 flags x 2^7 Feature subsets; item = one options value, compared against all 1024 '
        'values (eq/hash vs. the construction parameters), AST round trip, call_options, uses, spellings, and the '
        'options expression embedded by a real conversion, followed by conversions of the same function under the 7 other flag '
        'combinations and with each feature toggled (same transpiler: cache keys); non-trivial = every value (each is a distinct point of the '
        'finite space)')
ASSUMPTIONS = ['reference semantics of an options value = the tuple of constructor parameters it was built from',
               'embedded-options half runs only for the 128 values FunctionScope accepts (no ALL/NAME_SCOPES/AUTO_CONTROL_DEPS)']

_S = {}


def setup(tier, seed):
  from malt.core import converter
  from malt.impl import api
  from malt.pyct import parser
  _S['converter'] = converter
  _S['api'] = api
  _S['parser'] = parser
  _S['feats'] = list(converter.Feature)
  _S['ag'] = api._TRANSPILER.get_extra_locals()['ag__']
  vals = []
  for i in range(1024):
    vals.append(build(i))
  _S['vals'] = vals


def params(i):
  feats = _S['feats']
  rec = bool(i & 1)
  ur = bool(i & 2)
  icu = bool(i & 4)
  fs = frozenset(f for k, f in enumerate(feats) if (i >> (3 + k)) & 1)
  return rec, ur, icu, fs


def build(i, spelling='frozenset'):
  rec, ur, icu, fs = params(i)
  C = _S['converter'].ConversionOptions
  order = [f for f in _S['feats'] if f in fs]
  if spelling == 'frozenset':
    of = fs
  elif spelling == 'tuple':
    of = tuple(order)
  elif spelling == 'rtuple':
    of = tuple(reversed(order))
  elif spelling == 'set':
    of = set(order)
  elif spelling == 'list':
    of = list(order)
  elif spelling == 'none':
    assert not fs
    of = None
  elif spelling == 'single':
    assert len(fs) == 1
    of = order[0]
  elif spelling == 'dup':
    of = tuple(order + order)
  return C(recursive=rec, user_requested=ur, internal_convert_user_code=icu, optional_features=of)


def items(tier, seed):
  for i in range(1024):
    yield ('opt', i)


def exhaustive(tier, n):
  return True


def V(sig, msg, item):
  return {'sig': sig, 'msg': msg, 'replay': {'item': item}}


_SRC = '''
def f(a):
  def g(b):
    return b + 1
  h = lambda c: c * 2
  return g(a) + h(a)
'''


def scope_option_exprs(tree):
  """(kind, expression source) of every FunctionScope / with_function_scope options argument."""
  out = []
  for n in ast.walk(tree):
    if isinstance(n, ast.Call) and isinstance(n.func, ast.Attribute) and isinstance(n.func.value, ast.Name) and n.func.value.id == 'ag__':
      if n.func.attr in ('FunctionScope', 'with_function_scope'):
        out.append((n.func.attr, ast.unparse(n.args[2])))
  return out


def check(item):
  _, i = item
  conv = _S['converter']
  vals = _S['vals']
  o = vals[i]
  p = params(i)
  viol = []
  n = {'evaluations': 0, 'pair_comparisons': 0, 'roundtrips': 0, 'embedded_conversions': 0}
  ag = _S['ag']
  # --- round trip through the AST form
  src = _S['parser'].unparse(o.to_ast()).strip()
  n['roundtrips'] += 1
  n['evaluations'] += 1
  try:
    back = eval(src, {'ag__': ag})  # pylint:disable=eval-used
    ok = (isinstance(back, conv.ConversionOptions) and
          (back.recursive, back.user_requested, back.internal_convert_user_code, frozenset(back.optional_features)) == p)
    if not ok:
      viol.append(V('roundtrip-differs', 'options %r -> %s evaluates to %r' % (p, src, getattr(back, 'as_tuple', lambda: back)()), item))
    elif not (back == o and hash(back) == hash(o)):
      viol.append(V('roundtrip-not-equal', 'options %r -> %s: evaluated value not ==/hash-equal to the original' % (p, src), item))
  except Exception as e:  # pylint:disable=broad-except
    viol.append(V('roundtrip-raises', 'options %r -> %s raises %s: %s' % (p, src, type(e).__name__, e), item))
  # --- stored fields
  if (o.recursive, o.user_requested, o.internal_convert_user_code, frozenset(o.optional_features)) != p:
    viol.append(V('fields-differ', 'constructed %r, fields say %r' % (p, o.as_tuple()), item))
  # --- spellings
  sp = ['tuple', 'rtuple', 'set', 'list', 'dup']
  if not p[3]:
    sp.append('none')
  if len(p[3]) == 1:
    sp.append('single')
  for s in sp:
    n['evaluations'] += 1
    o2 = build(i, s)
    if not (o2 == o and hash(o2) == hash(o) and not (o2 != o)):
      viol.append(V('spelling-' + s, 'options %r spelled as %s is not equal / hash-equal to the frozenset spelling' % (p, s), item))
  # --- eq / hash against all values
  for j, q in enumerate(vals):
    n['pair_comparisons'] += 1
    same = params(j) == p
    try:
      e1 = (o == q)
      e2 = not (o != q)
    except Exception as e:  # pylint:disable=broad-except
      viol.append(V('eq-raises', 'comparing %r with %r raises %s' % (p, params(j), type(e).__name__), item))
      break
    if e1 != same or e2 != same:
      viol.append(V('eq-wrong', '%r == %r gives %s, expected %s' % (p, params(j), e1, same), item))
      break
    if same and hash(o) != hash(q):
      viol.append(V('hash-wrong', 'equal options %r hash differently' % (p,), item))
      break
  n['evaluations'] += len(vals)
  # as dict keys (what the caches do)
  d = {q: j for j, q in enumerate(vals)}
  if len(d) != len(vals) or d.get(build(i, 'tuple')) != i:
    viol.append(V('dict-key', 'options %r not usable as a dictionary key consistently (%d distinct keys of %d)' % (p, len(d), len(vals)), item))
  # --- call_options
  c = o.call_options()
  n['evaluations'] += 1
  exp = (p[0], False, p[0], p[3])
  got = (c.recursive, c.user_requested, c.internal_convert_user_code, frozenset(c.optional_features))
  if got != exp:
    viol.append(V('call_options', 'call_options of %r = %r, expected %r' % (p, got, exp), item))
  else:
    # ... and it is a value like any other: equal / hash-equal to a freshly built one, usable as a key (o itself has been
    # compared and hashed above, which is when a memoised tuple would be stale)
    fresh = conv.ConversionOptions(recursive=exp[0], user_requested=exp[1], internal_convert_user_code=exp[2], optional_features=exp[3])
    if not (c == fresh and fresh == c and hash(c) == hash(fresh) and {fresh: 1}.get(c) == 1 and (c == o) == (exp == p)):
      viol.append(V('call_options-value', 'call_options() of %r has the right fields but does not compare / hash like a freshly built %r' % (p, exp), item))
  # --- uses
  for f in _S['feats']:
    n['evaluations'] += 1
    want = f in p[3] or conv.Feature.ALL in p[3]
    if bool(o.uses(f)) != want:
      viol.append(V('uses', 'uses(%s) of %r = %s, expected %s' % (f, p, o.uses(f), want), item))
      break
  # --- embedded in generated code (only where FunctionScope accepts the features)
  F = conv.Feature
  outcome = [src, got]
  if not (p[3] & {F.ALL, F.NAME_SCOPES, F.AUTO_CONTROL_DEPS}):
    # what a function scope hands to callees
    n['evaluations'] += 2
    try:
      from malt.operators import function_wrappers
      sc = function_wrappers.FunctionScope('f', 'fscope', o)
      co = sc.callopts
      gotc = (co.recursive, co.user_requested, co.internal_convert_user_code, frozenset(co.optional_features))
      if gotc != exp:
        viol.append(V('scope-callopts', 'FunctionScope(options=%r).callopts = %r, expected %r' % (p, gotc, exp), item))
      seen = []
      function_wrappers.with_function_scope(lambda scope: seen.append(scope.callopts), 'lscope', o)
      co = seen[0]
      gotc = (co.recursive, co.user_requested, co.internal_convert_user_code, frozenset(co.optional_features))
      if gotc != exp:
        viol.append(V('lambda-scope-callopts', 'with_function_scope(options=%r) callopts = %r, expected %r' % (p, gotc, exp), item))
    except Exception as e:  # pylint:disable=broad-except
      viol.append(V('scope-raises', 'FunctionScope under options %r raises %s: %s' % (p, type(e).__name__, str(e)[:200]), item))
    fname = '<c20_%d>' % i
    s = _SRC + '\n_ID = %d\n' % i
    linecache.cache[fname] = (len(s), None, s.splitlines(True), fname)
    g = {}
    exec(compile(s.replace('return g(a) + h(a)', 'return g(a) + h(a) + %d' % (i * 0)), fname, 'exec'), g)  # pylint:disable=exec-used
    api = _S['api']
    tr = api.PyToPy()
    try:
      cf, mod, _ = tr.transform(g['f'], conv.ProgramContext(options=o))
      n['embedded_conversions'] += 1
      n['evaluations'] += 1
      gen = inspect.getsource(mod)
      exprs = scope_option_exprs(ast.parse(gen))
      outcome.append(exprs)
      if len(exprs) != 2:
        viol.append(V('embedded-count', 'expected 2 function scopes in generated code, found %r' % (exprs,), item))
      for k, (kind, e) in enumerate(exprs):
        val = eval(e, {'ag__': ag})  # pylint:disable=eval-used
        want = o if k == 0 else o.call_options()
        wantp = p if k == 0 else exp
        gotp = (val.recursive, val.user_requested, val.internal_convert_user_code, frozenset(val.optional_features))
        if gotp != wantp or not (val == want):
          viol.append(V('embedded-differs', 'options embedded in generated %s (scope %d) = %s evaluates to %r, expected %r' % (kind, k, e, gotp, wantp), item))
      r = cf(3)
      if r != 10:
        viol.append(V('embedded-run', 'converted function under options %r returned %r instead of 10' % (p, r), item))
      # the converted entity itself is a lambda (its scope is entered by with_function_scope)
      lam_src = 'lam = lambda a: a * 2 + %d\n' % (i * 0 + 1)
      lname = '<c20lam_%d>' % i
      linecache.cache[lname] = (len(lam_src), None, lam_src.splitlines(True), lname)
      import sys
      import types
      lmod = types.ModuleType('c20lam_%d' % i)     # a real module object: the lambda source lookup needs inspect.getmodule()
      sys.modules[lmod.__name__] = lmod
      gl = lmod.__dict__
      exec(compile(lam_src, lname, 'exec'), gl)  # pylint:disable=exec-used
      try:
        _, modl, _ = api.PyToPy().transform(gl['lam'], conv.ProgramContext(options=o))
        n['embedded_conversions'] += 1
        le = scope_option_exprs(ast.parse(inspect.getsource(modl)))
        if len(le) != 1:
          viol.append(V('embedded-count', 'lambda entity: expected 1 function scope in generated code, found %r' % (le,), item))
        for k, (kind, e) in enumerate(le[:1]):
          val = eval(e, {'ag__': ag})  # pylint:disable=eval-used
          wantp = p if k == 0 else exp
          gotp = (val.recursive, val.user_requested, val.internal_convert_user_code, frozenset(val.optional_features))
          if gotp != wantp:
            viol.append(V('embedded-differs-lambda-entity', 'lambda as the converted entity: options embedded in %s (scope %d) evaluate to %r, expected %r' % (kind, k, gotp, wantp), item))
      finally:
        linecache.cache.pop(lname, None)
        sys.modules.pop(lmod.__name__, None)
      # the same function converted again by the same transpiler under every neighbouring value (other flag
      # combinations; one feature toggled): each conversion must embed its own options, whatever was cached before
      allowed = [k for k, f in enumerate(_S['feats']) if f not in (F.ALL, F.NAME_SCOPES, F.AUTO_CONTROL_DEPS)]
      neigh = [(i & ~7) | fl for fl in range(8) if fl != (i & 7)] + [i ^ (1 << (3 + k)) for k in allowed]
      for j in neigh:
        q, pq = vals[j], params(j)
        expq = (pq[0], False, pq[0], pq[3])
        _, mod2, _ = tr.transform(g['f'], conv.ProgramContext(options=q))
        n['embedded_conversions'] += 1
        n['evaluations'] += 1
        exprs2 = scope_option_exprs(ast.parse(inspect.getsource(mod2)))
        for k, (kind, e) in enumerate(exprs2[:2]):
          val = eval(e, {'ag__': ag})  # pylint:disable=eval-used
          wantp = pq if k == 0 else expq
          gotp = (val.recursive, val.user_requested, val.internal_convert_user_code, frozenset(val.optional_features))
          if gotp != wantp:
            viol.append(V('embedded-differs-after-another-conversion', 'after converting the function under %r, converting it under %r embeds (scope %d) %r, expected %r' % (p, pq, k, gotp, wantp), item))
            break
        else:
          continue
        break
    except Exception as e:  # pylint:disable=broad-except
      viol.append(V('embedded-raises', 'conversion under options %r raises %s: %s' % (p, type(e).__name__, str(e)[:200]), item))
    finally:
      from mc import util
      util.purge_generated()
      linecache.cache.pop(fname, None)
  return {'viol': viol, 'n': n, 'outcome': repr(outcome), 'nontrivial': 'opt%d' % i,
          'sample': {'options': repr(p), 'embedded_form': src}}


def _canary_as_tuple():
  """An options subclass whose as_tuple omits a field must be caught by the pair oracle."""
  conv = _S['converter']

  class Bad(conv.ConversionOptions):
    def as_tuple(self):
      return (self.recursive, self.user_requested, self.optional_features)
  a = Bad(True, False, True, None)
  b = Bad(True, False, False, None)
  return (a == b) != ((True, False, True) == (True, False, False)) or hash(a) == hash(b) and a == b


CANARIES = [('options_subclass_dropping_a_field_is_detected', _canary_as_tuple)]
