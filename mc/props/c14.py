"""C14 - builtin overloads behave like the builtins on ordinary Python values.

Half 1: for each substituted builtin, every call shape its signature admits x a
value alphabet per parameter; oracle = the builtin itself on fresh equal
arguments (result, laziness, output, exception type), both through
overload_of() and through converted_call().
Half 2: eval / locals / globals / zero-argument super inside functionalised
loop and branch bodies at nesting depth 0-3 vs. the original function."""
import contextlib
import io
import itertools
import math
import sys

from mc import diff
from mc import tape as tapemod
from mc import util

ID = 'C14'
LEVEL = 'exploration'
RULE = ('calls = for each of abs, all, any, enumerate, filter, float, int, len, map, print, range, sorted, zip: every call shape '
        '(each optional parameter absent / positional / keyword where the builtin accepts it) x a value alphabet per parameter '
        '(ints incl. negative and bool, floats incl. nan/inf/-0.0, numeric and non-numeric strings, bytes, None, list / tuple / '
        'dict / set / range / str, one-shot iterators, generators, counting sources, objects implementing the relevant dunder '
        'methods, values the builtin rejects); each call is made through overload_of() and through converted_call(); context '
        'builtins = eval / locals / globals / super() at nesting depth 0-3 of if / for / while bodies, all tapes; '
        'distinct_nontrivial = distinct (builtin, shape, values) cases')
ASSUMPTIONS = ['only call shapes the builtin itself accepts are claimed: when the builtin raises TypeError for the call SHAPE the '
               'substitute may accept more', 'nan compared by repr']

_S = {'tier': 'quick'}
ITEM_TIMEOUT = {'quick': 60, 'thorough': 120}    # an item normally takes milliseconds


def setup(tier, seed):
  _S['tier'] = tier


class WithAbs(object):
  def __abs__(self):
    return 42

  def __int__(self):
    return 7

  def __float__(self):
    return 7.5

  def __index__(self):
    return 3

  def __len__(self):
    return 4

  def __repr__(self):
    return 'WithAbs()'


class Iterable(object):
  def __iter__(self):
    return iter([5, 6])


class Ordered(object):
  def __init__(self, k, tag):
    self.k, self.tag = k, tag

  def __lt__(self, o):
    return self.k < o.k

  def __eq__(self, o):
    return isinstance(o, Ordered) and (self.k, self.tag) == (o.k, o.tag)

  def __hash__(self):
    return hash((self.k, self.tag))

  def __repr__(self):
    return 'O(%r,%r)' % (self.k, self.tag)


class Counting(object):
  """An iterator that counts how many items were pulled."""

  def __init__(self, items):
    self.items = list(items)
    self.pulled = 0

  def __iter__(self):
    return self

  def __next__(self):
    if self.pulled >= len(self.items):
      raise StopIteration
    self.pulled += 1
    return self.items[self.pulled - 1]


def gen3():
  for i in (3, 1, 2):
    yield i


class ReprCounts(list):
  """A value whose repr() is observable (it is counted as output) - nothing may print or format an argument behind the
  user's back; abs / len / iteration work as for a list."""

  def __repr__(self):
    print('repr-called')
    return 'ReprCounts(%d)' % len(self)

  def __abs__(self):
    return 3


NUM = [('0', lambda: 0), ('1', lambda: 1), ('-3', lambda: -3), ('True', lambda: True), ('2.5', lambda: 2.5), ('-0.0', lambda: -0.0),
       ('nan', lambda: float('nan')), ('inf', lambda: float('inf')), ("'12'", lambda: '12'), ("' 7 '", lambda: ' 7 '),
       ("'x'", lambda: 'x'), ("b'5'", lambda: b'5'), ('None', lambda: None), ('WithAbs', WithAbs), ('[1]', lambda: [1]),
       ('1e400', lambda: 10 ** 400), ("'0x1f'", lambda: '0x1f'), ("'1_0'", lambda: '1_0'), ('ReprCounts', lambda: ReprCounts([1, 0]))]
ITER = [('[]', lambda: []), ('[3,1,2]', lambda: [3, 1, 2]), ('(1,0)', lambda: (1, 0)), ('{2:1}', lambda: {2: 1}), ('{1,2}', lambda: {1, 2}),
        ('range(3)', lambda: range(3)), ("'ab'", lambda: 'ab'), ('iter([1,0])', lambda: iter([1, 0])), ('gen3()', gen3),
        ('Counting', lambda: Counting([1, 0, 2])), ('5', lambda: 5), ('Iterable()', Iterable), ('None', lambda: None),
        ('ties', lambda: [Ordered(1, 'a'), Ordered(0, 'b'), Ordered(1, 'c'), Ordered(0, 'd')]), ('mixed', lambda: [1, 'a']),
        ('ReprCounts', lambda: ReprCounts([2, 0, 1]))]
FUNCS = [('None', lambda: None), ('bool', lambda: bool), ('lam', lambda: (lambda *a: a[0])), ('add', lambda: (lambda a, b=10, c=100: a + b + c)),
         ('5', lambda: 5)]
BASES = [('10', lambda: 10), ('2', lambda: 2), ('16', lambda: 16), ('0', lambda: 0), ('1', lambda: 1), ('37', lambda: 37), ("'2'", lambda: '2'),
         ('WithAbs', WithAbs)]
STARTS = [('0', lambda: 0), ('5', lambda: 5), ('-1', lambda: -1), ('2.5', lambda: 2.5), ("'a'", lambda: 'a'), ('True', lambda: True)]
KEYS = [('None', lambda: None), ('neg', lambda: (lambda v: -v)), ('k', lambda: (lambda v: v.k)), ('len', lambda: len), ('5', lambda: 5)]
BOOLS = [('False', lambda: False), ('True', lambda: True), ('0', lambda: 0), ('1', lambda: 1), ("'x'", lambda: 'x'), ('None', lambda: None)]
INTS = [('0', lambda: 0), ('3', lambda: 3), ('-2', lambda: -2), ('True', lambda: True), ('2.5', lambda: 2.5), ("'3'", lambda: '3'),
        ('WithAbs', WithAbs), ('None', lambda: None)]
SEPS = [("'-'", lambda: '-'), ('None', lambda: None), ('5', lambda: 5)]


def cases():
  """(builtin name, description, args factories, kwargs factories)"""
  for n, v in NUM:
    yield ('abs', n, [v], {})
    yield ('float', n, [v], {})
    yield ('int', n, [v], {})
    yield ('len', n, [v], {})
  yield ('float', '', [], {})
  yield ('int', '', [], {})
  for n, v in NUM:
    for bn, b in BASES:
      yield ('int', '%s,%s' % (n, bn), [v, b], {})
      yield ('int', '%s,base=%s' % (n, bn), [v], {'base': b})
  for n, v in ITER:
    yield ('all', n, [v], {})
    yield ('any', n, [v], {})
    yield ('len', n, [v], {})
    yield ('enumerate', n, [v], {})
    yield ('enumerate', 'iterable=' + n, [], {'iterable': v})
    for sn, s in STARTS:
      yield ('enumerate', '%s,%s' % (n, sn), [v, s], {})
      yield ('enumerate', '%s,start=%s' % (n, sn), [v], {'start': s})
      yield ('enumerate', 'iterable=%s,start=%s' % (n, sn), [], {'iterable': v, 'start': s})
    yield ('sorted', n, [v], {})
    for kn, k in KEYS:
      yield ('sorted', '%s,key=%s' % (n, kn), [v], {'key': k})
      for rn, r in BOOLS:
        yield ('sorted', '%s,key=%s,reverse=%s' % (n, kn, rn), [v], {'key': k, 'reverse': r})
    for rn, r in BOOLS:
      yield ('sorted', '%s,reverse=%s' % (n, rn), [v], {'reverse': r})
    for fn, f in FUNCS:
      yield ('filter', '%s,%s' % (fn, n), [f, v], {})
      yield ('map', '%s,%s' % (fn, n), [f, v], {})
    yield ('zip', n, [v], {})
    for sn, s in BOOLS[:4]:
      yield ('zip', '%s,strict=%s' % (n, sn), [v], {'strict': s})
  yield ('zip', '', [], {})
  yield ('map', 'lam', [FUNCS[2][1]], {})
  for (n1, v1), (n2, v2) in itertools.product(ITER[:10], ITER[:10]):
    yield ('zip', '%s,%s' % (n1, n2), [v1, v2], {})
    yield ('zip', '%s,%s,strict=True' % (n1, n2), [v1, v2], {'strict': lambda: True})
    yield ('map', 'add,%s,%s' % (n1, n2), [FUNCS[3][1], v1, v2], {})
  for (n1, v1) in ITER[:6]:
    yield ('zip', '%s x3' % n1, [v1, v1, v1], {})
    yield ('map', 'add,%s x3' % n1, [FUNCS[3][1], v1, v1, v1], {})
  for n, v in INTS:
    yield ('range', n, [v], {})
    for n2, v2 in INTS:
      yield ('range', '%s,%s' % (n, n2), [v, v2], {})
      for n3, v3 in INTS[:5]:
        yield ('range', '%s,%s,%s' % (n, n2, n3), [v, v2, v3], {})
  # print: objects x keywords
  objs = [[], [lambda: 1], [lambda: 'a', lambda: 2.5], [lambda: None, lambda: [1], lambda: 'z']]
  for o in objs:
    for sep in [None] + SEPS:
      for end in [None] + SEPS:
        for flush in (None, lambda: True):
          for fil in ('default', 'buffer'):
            kw = {}
            if sep is not None:
              kw['sep'] = sep[1]
            if end is not None:
              kw['end'] = end[1]
            if flush is not None:
              kw['flush'] = flush
            desc = '%d objs sep=%s end=%s flush=%s file=%s' % (len(o), sep and sep[0], end and end[0], bool(flush), fil)
            yield ('print', desc, list(o), dict(kw, **({'file': 'BUFFER'} if fil == 'buffer' else {})))
  yield ('print', 'bad kw', [lambda: 1], {'bogus': lambda: 1})


def items(tier, seed):
  for i, c in enumerate(cases()):
    yield ('call', i)
  for r in REGISTRIES:
    yield ('registry', r)
  for b in ('eval', 'locals', 'globals', 'super', 'eval_hidden', 'super_inherited', 'super_chain',
            # explicit namespaces (given, empty, None) must be used exactly as the builtin uses them; an explicit
            # two-argument super followed by a zero-argument one (the call wrapper's caches sit in between)
            'eval_globals', 'eval_both', 'eval_empty', 'eval_none', 'eval_missing', 'super_both',
            # a keyword given explicitly and again through ** (or through two ** mappings) is a TypeError in Python
            'kw_clash', 'kw_two_maps', 'kw_no_clash'):
    for depth in range(0, 4):
      for ctx in itertools.product(('if', 'for', 'while'), repeat=depth):
        yield ('ctx', b, ctx)


_CASES = []


def get_case(i):
  if not _CASES:
    _CASES.extend(cases())
  return _CASES[i]


def norm(v, depth=0):
  if isinstance(v, float):
    return ('float', repr(v))
  if isinstance(v, complex):
    return ('complex', repr(v))
  if isinstance(v, (list, tuple)) and depth < 5:
    return (type(v).__name__,) + tuple(norm(x, depth + 1) for x in v)
  if isinstance(v, (bool, int, str, bytes, type(None), range)):
    return (type(v).__name__, v)
  if isinstance(v, Ordered):
    return ('O', v.k, v.tag)
  return (type(v).__name__, repr(v)[:60])


def invoke(fn, argf, kwf, route):
  """Calls fn on fresh arguments; returns a normalised observation."""
  buf = io.StringIO()
  args = [a() for a in argf]
  kwargs = {}
  for k, v in kwf.items():
    kwargs[k] = buf if v == 'BUFFER' else v()
  counting = [a for a in args if isinstance(a, Counting)] + [v for v in kwargs.values() if isinstance(v, Counting)]
  out = io.StringIO()
  try:
    with contextlib.redirect_stdout(out):
      r = route(fn, args, kwargs)
      pulled_before = [c.pulled for c in counting]
      lazy = hasattr(r, '__next__') and not isinstance(r, Counting)
      if lazy:
        items_ = []
        for x in r:
          items_.append(x)
          if len(items_) > 50:
            break
        val = ('lazy', type(r).__name__, norm(items_))
      else:
        val = ('value', norm(r))
  except Exception as e:  # pylint:disable=broad-except
    return ('exc', type(e).__name__), out.getvalue(), buf.getvalue()
  return (val, tuple(pulled_before)), out.getvalue(), buf.getvalue()


def check_call(i, break_sub=False):
  from malt.operators import py_builtins
  from malt.impl import api
  from malt.core import converter
  import builtins
  name, desc, argf, kwf = get_case(i)
  b = getattr(builtins, name)
  sub = py_builtins.overload_of(b)
  if break_sub and name == 'sorted':
    sub = lambda it, **k: list(reversed(sorted(it, **{kk: vv for kk, vv in k.items() if kk != 'reverse'}))) if k.get('reverse') else sorted(it, **k)
  viol = []
  opts = converter.ConversionOptions(recursive=True, user_requested=False, optional_features=None)
  ref = invoke(b, argf, kwf, lambda f, a, k: f(*a, **k))
  routes = [('overload_of', lambda f, a, k: sub(*a, **k)),
            ('converted_call', lambda f, a, k: api.converted_call(b, tuple(a), dict(k) if k else None, options=opts))]
  mutated = []
  if kwf:
    # the same call with the first keyword bound in a functools.partial and the others given at the call site
    import functools

    def via_partial(f, a, k):
      k0 = sorted(k)[0]
      bound = {k0: k[k0]}
      p = functools.partial(b, **bound)
      rest = {kk: vv for kk, vv in k.items() if kk != k0}
      try:
        return api.converted_call(p, tuple(a), rest if rest else None, options=opts)
      finally:
        if set(p.keywords) != {k0} or p.keywords[k0] is not bound[k0] or p.args != ():
          mutated.append((sorted(p.keywords), p.args))
    routes.append(('converted_call of a partial', via_partial))
  if break_sub:
    routes = routes[:1]
  for rname, route in routes:
    got = invoke(b, argf, kwf, route)
    if got == ref:
      continue
    if ref[0][0] == 'exc' and ref[0][1] == 'TypeError' and shape_rejected(b, argf, kwf):
      continue   # the builtin rejects the call shape itself: the substitute may accept more
    if ref[0][0] == 'exc' and got[0][0] == 'exc' and got[0][1] != ref[0][1]:
      viol.append(('exception-type', '%s(%s) via %s: builtin raises %s, substitute raises %s' % (name, desc, rname, ref[0][1], got[0][1])))
    elif ref[0][0] == 'exc' or got[0][0] == 'exc':
      viol.append(('raises-differently', '%s(%s) via %s: builtin gives %r, substitute gives %r' % (name, desc, rname, ref[0], got[0])))
    elif ref[0] != got[0]:
      k = 'laziness' if ref[0][0] == got[0][0] and ref[0][1] != got[0][1] else 'result'
      viol.append((k, '%s(%s) via %s: builtin gives %r, substitute gives %r' % (name, desc, rname, ref[0], got[0])))
    else:
      viol.append(('output', '%s(%s) via %s: builtin writes %r / %r, substitute writes %r / %r' % (name, desc, rname, ref[1], ref[2], got[1], got[2])))
    break
  if mutated and not viol:
    viol.append(('partial-mutated', '%s(%s): calling a partial of the builtin through converted_call changed the partial object: keywords/args now %r' % (name, desc, mutated[0])))
  return name, desc, viol


def shape_rejected(b, argf, kwf):
  """True if the builtin rejects this call shape for all values (e.g. a keyword it does not take)."""
  if not kwf:
    return False
  try:
    import inspect
    sig = inspect.signature(b)
    for k in kwf:
      if k not in sig.parameters or sig.parameters[k].kind == inspect.Parameter.POSITIONAL_ONLY:
        if not any(p.kind == inspect.Parameter.VAR_KEYWORD for p in sig.parameters.values()):
          return True
  except (TypeError, ValueError):
    pass
  return False


# --- type registries: an override registered for one builtin must not leak into the others -----

class Vec(list):
  def __abs__(self):
    return 'abs-of-vec'


REGISTRIES = ('abs', 'len', 'print', 'enumerate', 'zip', 'map', 'filter', 'any', 'all', 'sorted', 'next', 'for_loop')


def registry_calls():
  ident = lambda x: x
  return [('abs', lambda f: f(Vec([1, 0, 2]))), ('len', lambda f: f(Vec([1, 0, 2]))), ('any', lambda f: f(Vec([1, 0, 2]))),
          ('all', lambda f: f(Vec([1, 0, 2]))), ('sorted', lambda f: f(Vec([1, 0, 2]))), ('enumerate', lambda f: list(f(Vec([1, 0, 2])))),
          ('zip', lambda f: list(f(Vec([1, 0, 2]), Vec([3])))), ('map', lambda f: list(f(ident, Vec([1, 0, 2])))),
          ('filter', lambda f: list(f(None, Vec([1, 0, 2])))), ('print', lambda f: f(Vec([1, 0, 2])))]


def check_registry(rname):
  from malt.operators import py_builtins, control_flow
  import builtins
  reg = control_flow.for_loop_registry if rname == 'for_loop' else getattr(py_builtins, rname + '_registry')
  viol = []
  ncalls = 0

  def observe(fn):
    out = io.StringIO()
    try:
      with contextlib.redirect_stdout(out):
        return ('ret', repr(fn())), out.getvalue()
    except Exception as e:  # pylint:disable=broad-except
      return ('exc', type(e).__name__), out.getvalue()
  reg.register(Vec, lambda *a, **k: 'OVERRIDE-%s' % rname)
  try:
    for bname, call in registry_calls():
      if bname == rname:
        continue
      b = getattr(builtins, bname)
      ref = observe(lambda: call(b))
      got = observe(lambda: call(py_builtins.overload_of(b)))
      ncalls += 1
      if ref != got:
        viol.append(('registry-leak', 'with an override registered for %s only, %s on the same type gives %r, the builtin gives %r' % (rname, bname, got, ref)))
        break
    if rname != 'for_loop':
      # ... nor into the for statement operator
      seen = []
      control_flow.for_stmt(Vec([1, 2]), None, seen.append, lambda: (), lambda _: None, (), {})
      if seen != [1, 2]:
        viol.append(('registry-leak', 'with an override registered for %s only, for_stmt over the same type ran the body on %r' % (rname, seen)))
  finally:
    reg._registry.pop(Vec, None)
  return viol, ncalls


# --- context-sensitive builtins ------------------------------------------------

def ctx_source(b, ctx, pid):
  L = []
  k = [0]

  def K():
    k[0] += 1
    return k[0]
  ind = 1
  if b in ('super', 'super_inherited', 'super_chain', 'super_both'):
    L.append('class Base(object):')
    L.append('    def m(self, zo, d):')
    L.append('        return 100')
    L.append('class Child(Base):')
    L.append('    def m(self, zo, d):')
    L.append('        r = 0')
    ind = 2
  else:
    L.append('def f(zo, d):')
    L.append('    x = %d' % (pid % 7 + 3))
    L.append('    r = 0')
  for c in ctx:
    pad = '    ' * ind
    if c == 'if':
      L.append(pad + 'if c(%d):' % K())
    elif c == 'for':
      L.append(pad + 'for i%d in it(%d):' % (ind, K()))
    else:
      L.append(pad + 'while c(%d):' % K())
    ind += 1
  pad = '    ' * ind
  if b == 'eval':
    L.append(pad + "r = r * 10 + eval('x + 1') + x * 0")
  elif b == 'eval_hidden':
    L.append(pad + "r = r * 10 + eval('x + 1')")
  elif b == 'locals':
    L.append(pad + "r = r * 10 + locals()['x'] + x * 0")
  elif b == 'globals':
    L.append(pad + "r = r * 10 + globals()['GV']")
  elif b == 'eval_globals':
    L.append(pad + "r = r * 10 + eval('x + 1', {'x': 40}) + x * 0")
  elif b == 'eval_both':
    L.append(pad + "r = r * 10 + eval('x + y', {'x': 40, 'y': 1}, {'y': 2}) + x * 0")
  elif b == 'eval_empty':
    L.append(pad + "r = r * 10 + eval('x + 1', {'x': 40}, {}) + x * 0")
  elif b == 'eval_none':
    L.append(pad + "r = r * 10 + eval('x + 1', None, None) + eval('x + GV', None, {'x': 50}) + x * 0")
  elif b == 'eval_missing':
    L.append(pad + "r = r * 10 + eval('x + 1', {}, {}) + x * 0")
  elif b == 'kw_clash':
    L.append(pad + "r = r * 10 + len(sorted([3, 1], reverse=True, **{'reverse': False})) + x * 0")
  elif b == 'kw_two_maps':
    L.append(pad + "r = r * 10 + int('101', **{'base': 2}, **{'base': 10}) + x * 0")
  elif b == 'kw_no_clash':
    L.append(pad + "r = r * 10 + sorted([3, 1], **{'reverse': True}, **{'key': abs})[0] + x * 0")
  elif b == 'super_both':
    L.append(pad + 'r = r * 10 + super(Child, self).m(zo, d)')
    L.append(pad + 'r = r * 10 + super().m(zo, d)')
  elif b in ('super', 'super_inherited', 'super_chain'):
    L.append(pad + 'r = r * 10 + super().m(zo, d)')
  if 'while' in ctx:
    L.append(pad + 'break')
  base = 2 if b.startswith('super') else 1
  L.append('    ' * base + 'return (%d, r)' % pid)
  if b == 'super_inherited':
    # the method runs on an instance of a subclass of its defining class
    L.append('class Leaf(Child):')
    L.append('    pass')
    L.append('_obj = Leaf()')
  elif b == 'super_chain':
    # cooperative chain: the subclass overrides m and reaches Child.m through its own super()
    L.append('class Leaf(Child):')
    L.append('    def m(self, zo, d):')
    L.append('        return (7, super().m(zo, d))')
    L.append('_obj = Leaf()')
  elif b in ('super', 'super_both'):
    L.append('_obj = Child()')
  if b.startswith('super'):
    L.append('def f(zo, d):')
    L.append('    return _obj.m(zo, d)')
  return '\n'.join(L) + '\n'


def check_ctx(item, pid):
  import malt
  _, b, ctx = item
  src = ctx_source(b, ctx, pid)
  h = diff.Harness(src, pid, extra_globals={'GV': 4})
  viol = []
  nexec = 0
  try:
    try:
      cf = malt.to_graph(h.f)
    except Exception as e:  # pylint:disable=broad-except
      return src, [('convert-error', '%s: %s' % (type(e).__name__, str(e)[:160]))], 0

    def on_exec(tp, asked, ref):
      got = h.run(cf, tp)
      dd = diff.first_difference(ref, got)
      if dd and not viol:
        viol.append(('context-' + dd[0], 'on tape %s: %s' % (list(tp), dd[1])))
    nexec, _, _ = tapemod.explore(h.env, lambda: h._run(h.f), on_exec, dev=3)
  finally:
    h.close()
  return src, viol, nexec


def stable_id(item):
  import hashlib
  return int(hashlib.sha1(repr(item).encode()).hexdigest()[:6], 16) + 1000


def check(item):
  if item[0] == 'registry':
    viol, ncalls = check_registry(item[1])
    out = [util.V('%s|%s' % (k, item[1]), m, item) for k, m in viol]
    return {'viol': out, 'n': {'evaluations': ncalls, 'registry_cases': 1}, 'outcome': repr(item), 'nontrivial': repr(item)}
  if item[0] == 'call':
    name, desc, viol = check_call(item[1])
    out = [util.V('%s|%s|%s' % (k, name, desc), m, item) for k, m in viol]
    return {'viol': out, 'n': {'evaluations': 3, 'builtin_calls': 1}, 'outcome': '%s(%s)' % (name, desc),
            'nontrivial': '%s(%s)' % (name, desc), 'sample': {'call': '%s(%s)' % (name, desc)}}
  src, viol, nexec = check_ctx(item, stable_id(item))
  out = []
  for k, m in viol:
    sig = '%s|%s|depth=%d' % (k, item[1], len(item[2]))
    if item[1] == 'eval_hidden' and len(item[2]) > 0 and k.startswith('context-'):
      sig = 'eval-cannot-see-variables-named-only-in-the-string-inside-a-functionalised-body'
    out.append(util.V(sig, '%s: %s\nprogram:\n%s' % (k, m, src), item, source=src))
  return {'viol': out, 'n': {'evaluations': max(1, nexec), 'context_programs': 1, 'executions': nexec}, 'outcome': src,
          'nontrivial': src, 'sample': {'source': src}}


def exhaustive(tier, n):
  return True


def _canary():
  # a substitute that loses stability under reverse must be caught by the ties alphabet
  for i, c in enumerate(cases()):
    if c[0] == 'sorted' and c[1] == 'ties,key=k,reverse=True':
      return bool(check_call(i, break_sub=True)[2])
  return False


CANARIES = [('builtin_oracle_fires_on_an_unstable_sorted', _canary)]
