"""C07 - liveness is sound: anything read later is reported live.

Programs / executions as C06; oracle: use-before-overwrite computed from the
access log of each execution (reads by local functions attributed to the
enclosing function's variable)."""
import ast

from mc import analysis
from mc import progspace as ps
from mc import tape as tapemod
from mc import util
from mc.props import c06

ID = 'C07'
LEVEL = 'exploration'
RULE = ('programs/executions as C06 (plus zero-iteration loops, loop targets re-assigned in the body and nonlocal '
        'closures, which the menus contain by construction); after every executed statement instance, each variable '
        'whose next access in the execution is a read must be in Analyzer.in_ of the CFG node executed next in that '
        'frame and in LIVE_VARS_OUT of every statement just exited (where the analysis defines it); the solution must '
        'be a fixed point; distinct_nontrivial = distinct programs with a compound statement')
ASSUMPTIONS = c06.ASSUMPTIONS + ['lambdas that outlive their defining statement are outside the property (documented lambda limitation)']

MENUS = c06.MENUS
PLAN = c06.PLAN
CAP = c06.CAP
DEV = c06.DEV
_S = {'tier': 'quick'}


def setup(tier, seed):
  _S['tier'] = tier


REAN_MENUS = ('clos', 'alias', 'trans', 'deep', 'targets', 'state')


def items(tier, seed):
  # every program is analysed with two epilogues: x read at the end / nothing read at the end
  for k in c06.items(tier, seed):
    yield k + (('x',),)
    yield k + ((),)
  # the same tree analysed, edited in place (a variable renamed, a statement inserted) and analysed again - what the
  # converter pipeline does after every pass - must be annotated like a fresh parse of the edited program
  nmax = 3 if tier == 'quick' else 4
  seen = set()
  for name in REAN_MENUS:
    menu = MENUS[name]
    for n in range(1, nmax + 1):
      for body in ps.blocks(n, menu):
        if (name, body) not in seen:
          seen.add((name, body))
          yield ('rean', name, body)


def pipeline(fn):
  from malt.pyct import cfg, naming, qual_names, transformer
  from malt.pyct.static_analysis import activity, liveness, reaching_definitions, reaching_fndefs
  info = transformer.EntityInfo(name='f', source_code='', source_file=None, future_features=(), namespace={})
  ctx = transformer.Context(info, naming.Namer({}), None)
  fn = qual_names.resolve(fn)
  fn = activity.resolve(fn, ctx, None)
  graphs = cfg.build(fn)
  fn = reaching_definitions.resolve(fn, ctx, graphs)
  fn = reaching_fndefs.resolve(fn, ctx, graphs)
  fn = liveness.resolve(fn, ctx, graphs)
  return fn


def annotations(fn):
  """Per statement (document order): live-in / live-out / scope read / modified / bound, as sorted strings."""
  from malt.pyct import anno
  from malt.pyct.static_analysis import annos
  out = []
  for n in ast.walk(fn):
    if not isinstance(n, ast.stmt):
      continue
    row = [type(n).__name__]
    for key in (anno.Static.LIVE_VARS_IN, anno.Static.LIVE_VARS_OUT):
      v = anno.getanno(n, key, None)
      row.append(None if v is None else tuple(sorted(str(q) for q in v)))
    sc = anno.getanno(n, anno.Static.SCOPE, None)
    if sc is None and isinstance(n, (ast.FunctionDef,)):
      sc = anno.getanno(n, annos.NodeAnno.ARGS_AND_BODY_SCOPE, None)
    if sc is None:
      row += [None, None, None]
    else:
      row += [tuple(sorted(str(q) for q in sc.read)), tuple(sorted(str(q) for q in sc.modified)), tuple(sorted(str(q) for q in sc.bound))]
    dv = anno.getanno(n, anno.Static.DEFINED_VARS_IN, None)
    row.append(None if dv is None else tuple(sorted(str(q) for q in dv)))
    # how many definitions reach each name the statement loads (reaching definitions, C06)
    nd = []
    for x in ast.walk(n):
      if isinstance(x, ast.stmt) and x is not n:
        continue
      if isinstance(x, ast.Name) and isinstance(x.ctx, ast.Load):
        ds = anno.getanno(x, anno.Static.DEFINITIONS, None)
        nd.append((x.id, None if ds is None else len(ds)))
    row.append(tuple(nd))
    out.append(tuple(row))
  return out


def check_reanalysis(item):
  from malt.pyct import ast_util, qual_names
  _, name, body = item
  src = ps.source(body, pro=('x',), epi=('x',), pid=0)
  try:
    compile(src, '<gen>', 'exec')
  except SyntaxError:
    return src, None
  tree = ast.parse(src)
  fn = tree.body[-1]
  pipeline(fn)
  # in-place edits of the analysed tree: rename x, insert a statement using a new name at the top and one at the end
  ast_util.rename_symbols(fn, {qual_names.QN('x'): qual_names.QN('x_renamed')})
  fn.body.insert(0, ast.parse('fresh_first = 1').body[0])
  fn.body.insert(len(fn.body) - 1, ast.parse('fresh_last = fresh_first').body[0])
  ast.fix_missing_locations(tree)
  edited = ast.unparse(tree)
  try:
    compile(edited, '<gen2>', 'exec')
  except SyntaxError:
    return src, None
  pipeline(fn)
  again = annotations(fn)
  fresh_fn = ast.parse(edited).body[-1]
  pipeline(fresh_fn)
  fresh = annotations(fresh_fn)
  viol = []
  if len(again) != len(fresh):
    viol.append(('reanalysis-shape', 're-analysed tree has %d statements, the fresh parse of the edited program %d' % (len(again), len(fresh))))
  else:
    labels = ('live-in', 'live-out', 'scope.read', 'scope.modified', 'scope.bound', 'defined-in', 'definitions')
    for k, (a, b) in enumerate(zip(again, fresh)):
      if a != b:
        j = [i for i in range(1, 8) if a[i] != b[i]]
        which = labels[j[0] - 1] if j else 'node'
        viol.append(('reanalysis-' + which.split('.')[0], 'statement %d (%s) of the edited program: %s after re-analysis of the edited tree is %r, a fresh analysis gives %r\nedited program:\n%s' % (
            k, a[0], which, a[j[0]] if j else a, b[j[0]] if j else b, edited)))
        break
  return src, viol


def item_source(item):
  name, body, pro, epi = item
  return ps.source(body, pro=pro, epi=epi, pid=0)


def run_item(src, tier, mutate=None):
  from malt.pyct import anno
  A = analysis.analyse(src, want=('live',))
  viol = []
  for an in A.live.values():
    for node in c06.reachable_rev(an.graph):
      if an.visit_node(node):
        viol.append(('not-fixed-point', 're-applying the liveness equation at %r changes the solution' % (node,), ()))
        break
  if mutate:
    mutate(A)
  R = analysis.Runner(A, CAP[tier])
  comp = c06.compounds_of(A.fn)
  top_graph = A.graphs[A.fn]
  an_top = A.live[id(top_graph)]
  outcomes = []

  def on_exec(tp, asked, res):
    accs, events = R.accesses()
    outcomes.append((tp, res, len(accs)))
    kinds = set(v[0] for v in viol)
    # next access kind per variable, scanning backwards
    nxt = {}
    live_at = [None] * (len(accs) + 1)
    live_at[len(accs)] = frozenset()
    cur = set()
    for i in range(len(accs) - 1, -1, -1):
      a = accs[i]
      if a.kind == 'r':
        cur = cur | {a.var}
      else:
        cur = cur - {a.var}
      live_at[i] = frozenset(cur)
    # a variable only holds a value while it is bound
    bound_at = [None] * (len(accs) + 1)
    b = set()
    for i, a in enumerate(accs):
      bound_at[i] = frozenset(b)
      if a.kind == 'w':
        b = b | {a.var}
      elif a.kind == 'd':
        b = b - {a.var}
    bound_at[len(accs)] = frozenset(b)
    top_events = [(tr, node, pos) for tr, node, pos in events if tr.fn == A.top_id]
    for k in range(len(top_events) - 1):
      tr, node, pos = top_events[k]
      tr2, node2, pos2 = top_events[k + 1]
      dyn_live = live_at[pos2] & bound_at[pos2]
      if not dyn_live:
        continue
      # (a) entry of the statement that follows
      rep = set(str(q) for q in an_top.in_[node2])
      miss = sorted(v for v in dyn_live if v not in rep)
      if miss and 'live-in' not in kinds:
        kinds.add('live-in')
        viol.append(('live-in', 'after `%s`, %s still read later (next use: %s) but not live at the entry of `%s` (reported: %s)' % (
            c06.node_src(node), miss, next_use(accs, pos2, miss[0]), c06.node_src(node2), sorted(rep)), tp))
      # (b) exit of the statements just finished
      ch1 = comp.get(node.ast_node, [])
      ch2 = comp.get(node2.ast_node, [])
      exited = [s for s in ch1 if s not in ch2]
      if isinstance(node.ast_node, ast.Expr):
        exited = exited + [node.ast_node]
      for s in exited:
        lo = anno.getanno(s, anno.Static.LIVE_VARS_OUT, None)
        if lo is None:
          continue
        rep = set(str(q) for q in lo)
        miss = sorted(v for v in dyn_live if v not in rep)
        if miss and 'live-out' not in kinds:
          kinds.add('live-out')
          viol.append(('live-out', '%s read later (next use: %s) but not in LIVE_VARS_OUT of the %s at line %d (reported: %s)' % (
              miss, next_use(accs, pos2, miss[0]), type(s).__name__, s.lineno, sorted(rep)), tp))
  nexec, ncap, trunc = tapemod.explore(R.env, R.run_ref, on_exec, dev=DEV[tier], max_exec=3000)
  return viol, nexec, ncap, trunc, outcomes


def next_use(accs, pos, var):
  for a in accs[pos:]:
    if a.var == var:
      return '`%s`%s' % (c06.node_src(a.cfg_node), ' (inside a local function)' if a.in_nested else '')
  return '?'


def reduce_and_sign(item, kind):
  name, body, pro, epi = item

  def fails(b, p):
    s = ps.source(b, pro=p, epi=epi, pid=0)
    try:
      compile(s, '<r>', 'exec')
    except SyntaxError:
      return None
    try:
      v = run_item(s, 'quick')[0]
    except Exception:  # pylint:disable=broad-except
      return None
    for x in v:
      if x[0] == kind:
        return x
    return None
  best = fails(body, pro)
  if best is None:
    return body, pro, None
  changed = True
  steps = 0
  while changed and steps < 80:
    changed = False
    cands = [(b, pro) for b in ps.reductions(body)] + [(body, tuple(v for v in pro if v != d)) for d in pro]
    for b, p in cands:
      steps += 1
      v = fails(b, p)
      if v is not None:
        body, pro, best, changed = b, p, v, True
        break
  return body, pro, best


def check(item):
  tier = _S['tier']
  if item[0] == 'rean':
    src, viol = check_reanalysis(item)
    if viol is None:
      return {'n': {'invalid_programs_skipped': 1}}
    out = [util.V('%s|%s|%s' % (k, item[1], ps.skeleton(item[2])), '%s: %s' % (k, m), item, source=src) for k, m in viol]
    return {'viol': out, 'n': {'evaluations': 3, 'reanalysed_programs': 1}, 'outcome': src, 'nontrivial': src}
  src = item_source(item)
  try:
    compile(src, '<gen>', 'exec')
  except SyntaxError:
    return {'n': {'invalid_programs_skipped': 1}}
  viol, nexec, ncap, trunc, outcomes = run_item(src, tier)
  out = []
  seen = set()
  for kind, msg, tp in viol:
    if kind in seen:
      continue
    seen.add(kind)
    rb, rp, rv = reduce_and_sign(item, kind)
    rsrc = ps.source(rb, pro=rp, epi=item[3], pid=0)
    sig = '%s|%s|%s|pro=%s|epi=%s|%s' % (kind, item[0], ps.skeleton(rb), ''.join(rp), ''.join(item[3]), rv[1] if rv else 'unreduced')
    out.append(util.V(sig, '%s on tape %s: %s\nreduced witness:\n%s' % (kind, list(tp), msg, rsrc), item, source=src, tape=list(tp)))
  body = item[1]
  nontriv = any(len(s) > 1 and isinstance(s[1], tuple) or s[0] == 'for' for s in body)
  return {'viol': out,
          'n': {'evaluations': nexec, 'programs': 1, 'executions': nexec, 'tape_cap_hits': ncap, 'exploration_truncated': int(trunc)},
          'outcome': repr(outcomes), 'nontrivial': src if nontriv else None,
          'sample': {'source': src, 'tapes_explored': nexec}}


def exhaustive(tier, n):
  return n.get('tape_cap_hits', 0) == 0 and n.get('exploration_truncated', 0) == 0


def _canary():
  """Removing one live variable from the analysis result must be caught."""
  src = 'def f(o, d):\n    x = 1\n    if c(1):\n        t(2, x)\n    t(3, x)\n    return (0, x)\n'

  def mutate(A):
    an = A.live[id(A.graphs[A.fn])]
    for node in an.graph.index.values():
      if isinstance(node.ast_node, ast.Expr):
        an.in_[node] = set(q for q in an.in_[node] if str(q) != 'x')
  v = run_item(src, 'quick', mutate=mutate)[0]
  return any(x[0] == 'live-in' for x in v)


CANARIES = [('use_before_overwrite_oracle_fires_when_a_live_variable_is_removed', _canary)]
