"""C07 - liveness is sound: anything read later is reported live.

Programs / executions as C06; oracle: use-before-overwrite computed from the
access log of each execution (reads by local functions attributed to the
enclosing function's variable)."""
import ast

from mc import analysis
from mc import progspace as ps
from mc import tape as tapemod
from mc import util
from mc.props import c06

ID = 'C07'
LEVEL = 'exploration'
RULE = ('programs/executions as C06 (plus zero-iteration loops, loop targets re-assigned in the body and nonlocal '
        'closures, which the menus contain by construction); after every executed statement instance, each variable '
        'whose next access in the execution is a read must be in Analyzer.in_ of the CFG node executed next in that '
        'frame and in LIVE_VARS_OUT of every statement just exited (where the analysis defines it); the solution must '
        'be a fixed point; distinct_nontrivial = distinct programs with a compound statement')
ASSUMPTIONS = c06.ASSUMPTIONS + ['lambdas that outlive their defining statement are outside the property (documented lambda limitation)']

MENUS = c06.MENUS
PLAN = c06.PLAN
CAP = c06.CAP
DEV = c06.DEV
_S = {'tier': 'quick'}


def setup(tier, seed):
  _S['tier'] = tier


def items(tier, seed):
  # every program is analysed with two epilogues: x read at the end / nothing read at the end
  for k in c06.items(tier, seed):
    yield k + (('x',),)
    yield k + ((),)


def item_source(item):
  name, body, pro, epi = item
  return ps.source(body, pro=pro, epi=epi, pid=0)


def run_item(src, tier, mutate=None):
  from malt.pyct import anno
  A = analysis.analyse(src, want=('live',))
  viol = []
  for an in A.live.values():
    for node in c06.reachable_rev(an.graph):
      if an.visit_node(node):
        viol.append(('not-fixed-point', 're-applying the liveness equation at %r changes the solution' % (node,), ()))
        break
  if mutate:
    mutate(A)
  R = analysis.Runner(A, CAP[tier])
  comp = c06.compounds_of(A.fn)
  top_graph = A.graphs[A.fn]
  an_top = A.live[id(top_graph)]
  outcomes = []

  def on_exec(tp, asked, res):
    accs, events = R.accesses()
    outcomes.append((tp, res, len(accs)))
    kinds = set(v[0] for v in viol)
    # next access kind per variable, scanning backwards
    nxt = {}
    live_at = [None] * (len(accs) + 1)
    live_at[len(accs)] = frozenset()
    cur = set()
    for i in range(len(accs) - 1, -1, -1):
      a = accs[i]
      if a.kind == 'r':
        cur = cur | {a.var}
      else:
        cur = cur - {a.var}
      live_at[i] = frozenset(cur)
    # a variable only holds a value while it is bound
    bound_at = [None] * (len(accs) + 1)
    b = set()
    for i, a in enumerate(accs):
      bound_at[i] = frozenset(b)
      if a.kind == 'w':
        b = b | {a.var}
      elif a.kind == 'd':
        b = b - {a.var}
    bound_at[len(accs)] = frozenset(b)
    top_events = [(tr, node, pos) for tr, node, pos in events if tr.fn == A.top_id]
    for k in range(len(top_events) - 1):
      tr, node, pos = top_events[k]
      tr2, node2, pos2 = top_events[k + 1]
      dyn_live = live_at[pos2] & bound_at[pos2]
      if not dyn_live:
        continue
      # (a) entry of the statement that follows
      rep = set(str(q) for q in an_top.in_[node2])
      miss = sorted(v for v in dyn_live if v not in rep)
      if miss and 'live-in' not in kinds:
        kinds.add('live-in')
        viol.append(('live-in', 'after `%s`, %s still read later (next use: %s) but not live at the entry of `%s` (reported: %s)' % (
            c06.node_src(node), miss, next_use(accs, pos2, miss[0]), c06.node_src(node2), sorted(rep)), tp))
      # (b) exit of the statements just finished
      ch1 = comp.get(node.ast_node, [])
      ch2 = comp.get(node2.ast_node, [])
      exited = [s for s in ch1 if s not in ch2]
      if isinstance(node.ast_node, ast.Expr):
        exited = exited + [node.ast_node]
      for s in exited:
        lo = anno.getanno(s, anno.Static.LIVE_VARS_OUT, None)
        if lo is None:
          continue
        rep = set(str(q) for q in lo)
        miss = sorted(v for v in dyn_live if v not in rep)
        if miss and 'live-out' not in kinds:
          kinds.add('live-out')
          viol.append(('live-out', '%s read later (next use: %s) but not in LIVE_VARS_OUT of the %s at line %d (reported: %s)' % (
              miss, next_use(accs, pos2, miss[0]), type(s).__name__, s.lineno, sorted(rep)), tp))
  nexec, ncap, trunc = tapemod.explore(R.env, R.run_ref, on_exec, dev=DEV[tier], max_exec=3000)
  return viol, nexec, ncap, trunc, outcomes


def next_use(accs, pos, var):
  for a in accs[pos:]:
    if a.var == var:
      return '`%s`%s' % (c06.node_src(a.cfg_node), ' (inside a local function)' if a.in_nested else '')
  return '?'


def reduce_and_sign(item, kind):
  name, body, pro, epi = item

  def fails(b, p):
    s = ps.source(b, pro=p, epi=epi, pid=0)
    try:
      compile(s, '<r>', 'exec')
    except SyntaxError:
      return None
    try:
      v = run_item(s, 'quick')[0]
    except Exception:  # pylint:disable=broad-except
      return None
    for x in v:
      if x[0] == kind:
        return x
    return None
  best = fails(body, pro)
  if best is None:
    return body, pro, None
  changed = True
  steps = 0
  while changed and steps < 80:
    changed = False
    cands = [(b, pro) for b in ps.reductions(body)] + [(body, tuple(v for v in pro if v != d)) for d in pro]
    for b, p in cands:
      steps += 1
      v = fails(b, p)
      if v is not None:
        body, pro, best, changed = b, p, v, True
        break
  return body, pro, best


def check(item):
  tier = _S['tier']
  src = item_source(item)
  try:
    compile(src, '<gen>', 'exec')
  except SyntaxError:
    return {'n': {'invalid_programs_skipped': 1}}
  viol, nexec, ncap, trunc, outcomes = run_item(src, tier)
  out = []
  seen = set()
  for kind, msg, tp in viol:
    if kind in seen:
      continue
    seen.add(kind)
    rb, rp, rv = reduce_and_sign(item, kind)
    rsrc = ps.source(rb, pro=rp, epi=item[3], pid=0)
    sig = '%s|%s|%s|pro=%s|epi=%s|%s' % (kind, item[0], ps.skeleton(rb), ''.join(rp), ''.join(item[3]), rv[1] if rv else 'unreduced')
    out.append(util.V(sig, '%s on tape %s: %s\nreduced witness:\n%s' % (kind, list(tp), msg, rsrc), item, source=src, tape=list(tp)))
  body = item[1]
  nontriv = any(len(s) > 1 and isinstance(s[1], tuple) or s[0] == 'for' for s in body)
  return {'viol': out,
          'n': {'evaluations': nexec, 'programs': 1, 'executions': nexec, 'tape_cap_hits': ncap, 'exploration_truncated': int(trunc)},
          'outcome': repr(outcomes), 'nontrivial': src if nontriv else None,
          'sample': {'source': src, 'tapes_explored': nexec}}


def exhaustive(tier, n):
  return n.get('tape_cap_hits', 0) == 0 and n.get('exploration_truncated', 0) == 0


def _canary():
  """Removing one live variable from the analysis result must be caught."""
  src = 'def f(o, d):\n    x = 1\n    if c(1):\n        t(2, x)\n    t(3, x)\n    return (0, x)\n'

  def mutate(A):
    an = A.live[id(A.graphs[A.fn])]
    for node in an.graph.index.values():
      if isinstance(node.ast_node, ast.Expr):
        an.in_[node] = set(q for q in an.in_[node] if str(q) != 'x')
  v = run_item(src, 'quick', mutate=mutate)[0]
  return any(x[0] == 'live-in' for x in v)


CANARIES = [('use_before_overwrite_oracle_fires_when_a_live_variable_is_removed', _canary)]
