"""C05 - the control-flow graph contains every control path that can execute.

Programs: exhaustive skeleton enumeration (E1); executions: all tapes (E2).
Oracle: (static) mirror links, index completeness, stmt_prev/stmt_next
recomputed from lexical containment; (dynamic) the probe trace of every
execution is a path from the entry to an exit / raise node."""
import ast

from mc import observe
from mc import progspace as ps
from mc import tape as tapemod
from mc import util

ID = 'C05'
LEVEL = 'exploration'
RULE = ('skeleton programs = every statement list over {call, return, break, continue, raise, lambda, class, if/else, '
        'while(+else), for(+else), with, try/except(1-2 handlers, as-name)/else/finally, nested def+call} up to the size '
        'bound; executions = every environment tape (all branch-decision sequences); distinct_nontrivial = distinct '
        'programs with at least one compound statement; oracle = probe trace of the instrumented copy must be a path of '
        'cfg.build() + static well-formedness checks')
ASSUMPTIONS = ['events after an exception was seen propagating through a finally are exempt (property text)',
               'only explicit raise E() is generated; no implicit exceptions',
               'lambda nodes emit no probe event: the path check may pass through them silently']

M = ps.Menu
FULL = M('cfg', ('S', 'ret', 'brk', 'cont', 'raise', 'LAMBDA', 'CLASS', 'CALLG'),
         ('if', 'ifelse', 'while', 'for', 'whileelse', 'forelse', 'with', 'tryex', 'tryO', 'tryfin', 'tryexfin', 'tryexelse', 'try2h', 'def'),
         vars_=(), ret=(None,))
JUMPS = M('cfgjumps', ('S', 'ret', 'brk', 'cont', 'raise'),
          ('if', 'while', 'for', 'whileelse', 'forelse', 'tryex', 'tryO', 'tryfin', 'tryexfin', 'tryexelse', 'try2h'),
          vars_=(), ret=(None,), depth=4)
EXC = M('cfgexc', ('S', 'raise', 'ret'), ('if', 'tryex', 'tryO', 'tryfin', 'tryexfin', 'tryexelse', 'try2h', 'while'),
        vars_=(), ret=(None,))
# a bare `except:` with an else clause inside a try with handlers (raise in the else clause is not caught by its own try)
BARE = M('cfgbare', ('S', 'raise'), ('tryex', 'trybareelse'), vars_=(), ret=(None,))
PLAN = {'quick': [(FULL, 5), (JUMPS, 5), (EXC, 6), (BARE, 8)], 'thorough': [(FULL, 5), (JUMPS, 6), (EXC, 7), (BARE, 9)]}
CAP = {'quick': 8, 'thorough': 10}
DEV = {'quick': 4, 'thorough': 5}
_S = {'tier': 'quick'}


def setup(tier, seed):
  from malt.pyct import cfg
  _S['tier'] = tier
  _S['cfg'] = cfg


def items(tier, seed):
  (full, nfull) = PLAN[tier][0]
  for n in range(1, nfull + 1):
    for body in ps.blocks(n, full):
      yield (full.name, body)
  for menu, nmax in PLAN[tier][1:]:
    for n in range(1, nmax + 1):
      for body in ps.blocks(n, menu):
        if n <= nfull and depth(body) <= full.depth:
          continue  # already enumerated by the full menu
        yield (menu.name, body)


def depth(b):
  d = 0
  for s in b:
    for part in s[1:]:
      if isinstance(part, tuple) and part and isinstance(part[0], tuple):
        d = max(d, 1 + depth(part))
  return d


def item_source(item):
  return ps.source(item[1], params='', epilogue=False)


class E2(Exception):
  pass


def expected_index(fn):
  """AST nodes that must have a CFG node in the graph of function `fn`."""
  out = set()
  out.add(fn.args)
  compounds = []

  def lambdas(e, acc):
    # lambdas directly inside expression e (not nested in another lambda)
    stack = [e]
    while stack:
      n = stack.pop()
      if isinstance(n, ast.Lambda):
        acc.add(n)
        continue
      stack.extend(ast.iter_child_nodes(n))

  def block(stmts):
    for s in stmts:
      stmt(s)

  def stmt(s):
    if isinstance(s, (ast.FunctionDef, ast.ClassDef)):
      out.add(s)
      for d in s.decorator_list:
        lambdas(d, out)
      return
    if isinstance(s, (ast.If, ast.While, ast.For, ast.Try)):
      compounds.append(s)
    if isinstance(s, ast.If):
      out.add(s.test)
      lambdas(s.test, out)
      block(s.body)
      block(s.orelse)
    elif isinstance(s, ast.While):
      out.add(s.test)
      lambdas(s.test, out)
      block(s.body)
      block(s.orelse)
    elif isinstance(s, ast.For):
      out.add(s.iter)
      lambdas(s.iter, out)
      block(s.body)
      block(s.orelse)
    elif isinstance(s, ast.With):
      for it in s.items:
        out.add(it)
        lambdas(it, out)
      block(s.body)
    elif isinstance(s, ast.Try):
      block(s.body)
      for h in s.handlers:
        block(h.body)
      block(s.orelse)
      block(s.finalbody)
    else:
      out.add(s)
      lambdas(s, out)
  block(fn.body)
  return out, compounds


def static_checks(fn, graph):
  """Yields (kind, message)."""
  idx = graph.index
  nodes = list(idx.values())
  nodeset = set(nodes)
  for n in nodes:
    for m in n.next:
      if n not in m.prev:
        yield 'mirror', 'edge %r -> %r has no predecessor link' % (n, m)
      if m not in nodeset:
        yield 'foreign-node', 'successor %r of %r is not in the index' % (m, n)
    for m in n.prev:
      if n not in m.next:
        yield 'mirror', 'predecessor link %r <- %r has no successor link' % (n, m)
  if graph.entry is not idx.get(fn.args):
    yield 'entry', 'entry node is %r, expected the arguments node' % (graph.entry,)
  if len(graph.entry.prev):
    yield 'entry', 'entry node has predecessors'
  exp, compounds = expected_index(fn)
  got = set(idx.keys())
  if exp != got:
    miss = [ast.unparse(a)[:40] if not isinstance(a, ast.arguments) else 'args' for a in exp - got]
    extra = [ast.unparse(a)[:40] for a in got - exp]
    yield 'index', 'index differs from the statement/test/iterable/with-item nodes of the function: missing %s extra %s' % (miss, extra)
  for x in graph.exit:
    if x not in nodeset:
      yield 'exit', 'exit node %r not in index' % (x,)
  for x in graph.error:
    if x not in idx:
      yield 'error', 'error node not in index'
  # stmt_prev / stmt_next recomputed from lexical containment
  for stmt in set(graph.stmt_next) | set(graph.stmt_prev):
    inside = set(idx[a] for a in ast.walk(stmt) if a in idx)
    nxt = set()
    prv = set()
    for a in inside:
      for b in a.next:
        if b not in inside:
          nxt.add(b)
      for b in a.prev:
        if b not in inside:
          prv.add(b)
    if set(graph.stmt_next.get(stmt, ())) != nxt:
      yield 'stmt_next', 'stmt_next of %s at line %d is %s, edges leaving the statement go to %s' % (
          type(stmt).__name__, stmt.lineno, sorted(map(repr, graph.stmt_next.get(stmt, ()))), sorted(map(repr, nxt)))
    if set(graph.stmt_prev.get(stmt, ())) != prv:
      yield 'stmt_prev', 'stmt_prev of %s at line %d is %s, edges entering the statement come from %s' % (
          type(stmt).__name__, stmt.lineno, sorted(map(repr, graph.stmt_prev.get(stmt, ()))), sorted(map(repr, prv)))
  for a in compounds:
    if a not in graph.stmt_next or a not in graph.stmt_prev:
      yield 'stmt-missing', '%s at line %d has no statement-level edges' % (type(a).__name__, a.lineno)


def silent_closure(nodes):
  """Successor sets skipping over lambda nodes (they emit no events)."""
  out = set()
  stack = list(nodes)
  seen = set()
  while stack:
    n = stack.pop()
    if n in seen:
      continue
    seen.add(n)
    if isinstance(n.ast_node, ast.Lambda):
      stack.extend(n.next)
    else:
      out.add(n)
  return out


def check_path(graph, rev, tr, escaped):
  """tr.events must be a path from entry to an exit/raise node. Returns None or (kind, msg)."""
  ev = tr.events
  cut = 'PROP' in ev
  if cut:
    ev = ev[:ev.index('PROP')]
  cur = graph.entry
  for e in ev:
    nxt = rev[e]
    if nxt not in silent_closure(cur.next):
      return 'edge', 'executed step %r -> %r is not an edge of the graph' % (cur, nxt)
    cur = nxt
  if cut:
    return None
  if escaped:
    if not isinstance(cur.ast_node, ast.Raise):
      return 'end-raise', 'exception escaped but the last executed node %r is not a raise node' % (cur,)
    if cur.ast_node not in graph.error:
      return 'end-error', 'raise node %r not in graph.error' % (cur,)
  else:
    if cur not in graph.exit:
      return 'end-exit', 'function returned after %r which is not an exit node' % (cur,)
  return None


def analyse(src, drop_edge=None):
  """Parses src, builds the CFGs; returns (tree, {fn: (graph, ids, rev)})."""
  cfg = _S['cfg']
  tree = ast.parse(src)
  fn = tree.body[-1]
  graphs = cfg.build(fn)
  return tree, fn, graphs


def graph_snapshot(g):
  return (frozenset(g.exit), g.entry, frozenset(g.error),
          {n: (tuple(n.next), tuple(n.prev)) for n in g.index.values()},
          {k: frozenset(v) for k, v in g.stmt_next.items()}, {k: frozenset(v) for k, v in g.stmt_prev.items()})


def graphs_after_analyses(fn, graphs):
  """The dataflow analyses receive the graphs and must leave them as they are (the converters consult them afterwards):
  run the standard pipeline (reaching definitions, reaching function definitions, liveness) on the very same graphs and
  compare every graph with its snapshot; then the well-formedness checks once more."""
  from malt.pyct import naming, qual_names, transformer
  from malt.pyct.static_analysis import activity, liveness, reaching_definitions, reaching_fndefs
  before = {f: graph_snapshot(g) for f, g in graphs.items()}
  info = transformer.EntityInfo(name='f', source_code='', source_file=None, future_features=(), namespace={})
  ctx = transformer.Context(info, naming.Namer({}), None)
  try:
    qual_names.resolve(fn)
    activity.resolve(fn, ctx, None)
    reaching_definitions.resolve(fn, ctx, graphs)
    reaching_fndefs.resolve(fn, ctx, graphs)
    liveness.resolve(fn, ctx, graphs)
  except Exception as e:  # pylint:disable=broad-except
    yield 'analysis-error', 'the analysis pipeline raised %s on the graphs: %s' % (type(e).__name__, str(e)[:120])
    return
  names = ('exit set', 'entry', 'error set', 'node links', 'stmt_next', 'stmt_prev')
  for f, g in graphs.items():
    after = graph_snapshot(g)
    for k, (a, b) in enumerate(zip(before[f], after)):
      if a != b:
        yield 'graph-changed-by-analyses', 'running the dataflow analyses changed the %s of the graph of %s' % (
            names[k], getattr(f, 'name', 'lambda'))
        break
    if not isinstance(f, ast.Lambda):
      for kind, msg in static_checks(f, g):
        yield 'static-after-analyses-' + kind, msg


def run_item(src, tier, mutate_graph=None, analyses_after=False):
  tree, fn, graphs = analyse(src)
  viol = []
  ids = {}
  rev = {}
  fn_ids = {}
  info = {}
  for k, (f, g) in enumerate(graphs.items()):
    if isinstance(f, ast.Lambda):
      for kind, msg in static_checks_lambda(f, g):
        viol.append(('static-' + kind, msg, ()))
      continue
    fn_ids[f] = k
    info[k] = (f, g)
    for kind, msg in static_checks(f, g):
      viol.append(('static-' + kind, msg, ()))
    for a, node in g.index.items():
      i = len(ids)
      ids[a] = i
      rev[i] = node
  if mutate_graph:
    mutate_graph(graphs[fn])
  if analyses_after:
    for kind, msg in graphs_after_analyses(fn, graphs):
      viol.append((kind, msg, ()))
  inst = observe.instrument(tree, ids, fn_ids)
  code = compile(inst, '<c05inst>', 'exec')
  env = tapemod.Env(CAP[tier])
  rec = observe.Recorder()
  g = {'c': env.c, 'it': env.it, 't': env.t, 'cm': env.cm, 'E': tapemod.E, 'E2': E2, 'mark': env.mark}
  g.update(rec.namespace())
  exec(code, g)  # pylint:disable=exec-used
  f = g['f']
  outcomes = []

  def run_ref():
    rec.reset()
    try:
      f()
      return False
    except tapemod.E:
      return True
    except NameError:
      return None   # g() called before def g: implicit exception, exempt

  def on_exec(tp, asked, escaped):
    outcomes.append((tp, escaped, tuple(tuple(t.events) for t in rec.traces)))
    if any(v[0] in ('edge', 'end-exit', 'end-raise', 'end-error') for v in viol):
      return
    if escaped is None:
      return
    inner_raised = any(trace_escaped(tr, info[tr.fn][1], rev) or tr.prop for tr in rec.traces[1:])
    for ti, tr in enumerate(rec.traces):
      if ti == 0 and inner_raised:
        continue  # an exception raised inside a callee is an implicit exception for the caller: exempt
      fnode, graph = info[tr.fn]
      # only the outermost trace knows whether an exception escaped it; inner
      # invocations that did not complete normally end in a raise as well
      esc = escaped if ti == 0 else trace_escaped(tr, graph, rev)
      r = check_path(graph, rev, tr, esc)
      if r:
        viol.append((r[0], r[1], tp))
        break
  nexec, ncap, trunc = tapemod.explore(env, run_ref, on_exec, dev=DEV[tier], max_exec=3000)
  return viol, nexec, ncap, trunc, outcomes


def trace_escaped(tr, graph, rev):
  ev = [e for e in tr.events if e != 'PROP']
  if not ev:
    return False
  return isinstance(rev[ev[-1]].ast_node, ast.Raise)


def static_checks_lambda(f, graph):
  nodes = list(graph.index.values())
  for n in nodes:
    for m in n.next:
      if n not in m.prev:
        yield 'mirror', 'lambda graph: edge without predecessor link'
  if set(graph.index.keys()) != {f.args, f.body}:
    yield 'index', 'lambda graph index is not {args, body}'
  if graph.entry is not graph.index.get(f.args):
    yield 'entry', 'lambda entry is not the arguments node'


def signature(kind, body, src, tier):
  """Reduce the witness and build the signature from it."""
  def fails(b):
    s = ps.source(b, params='', epilogue=False)
    try:
      compile(s, '<r>', 'exec')
    except SyntaxError:
      return None
    try:
      v, _, _, _, _ = run_item(s, 'quick', analyses_after=True)
    except Exception:  # pylint:disable=broad-except
      return None
    for x in v:
      if x[0] == kind:
        return x
    return None
  best = fails(body)
  if best is None:
    return body, None
  changed = True
  steps = 0
  while changed and steps < 80:
    changed = False
    for cand in ps.reductions(body):
      steps += 1
      v = fails(cand)
      if v is not None:
        body, best, changed = cand, v, True
        break
  return body, best


def check(item):
  tier = _S['tier']
  name, body = item
  src = item_source(item)
  # every program up to 4 nodes and a fixed sixteenth of the larger ones also go through the analysis pipeline
  import zlib
  after = ps_size(body) <= 4 or zlib.crc32(src.encode()) % 16 == 0
  viol, nexec, ncap, trunc, outcomes = run_item(src, tier, analyses_after=after)
  out = []
  seen = set()
  for kind, msg, tp in viol:
    if kind in seen:
      continue
    seen.add(kind)
    rb, rv = signature(kind, body, src, tier)
    rsrc = ps.source(rb, params='', epilogue=False)
    sig = '%s|%s|%s' % (kind, ps.skeleton(rb), rv[1] if rv else 'unreduced')
    out.append(util.V(sig, '%s on tape %s: %s\nreduced witness:\n%s' % (kind, list(tp), msg, rsrc), item,
                      source=src, tape=list(tp), reduced_source=rsrc))
  nontriv = any(len(s) > 1 and isinstance(s[1], tuple) for s in body)
  return {'viol': out,
          'n': {'evaluations': nexec, 'programs': 1, 'executions': nexec, 'tape_cap_hits': ncap, 'exploration_truncated': int(trunc)},
          'outcome': repr(outcomes), 'nontrivial': src if nontriv else None,
          'sample': {'source': src, 'tapes_explored': nexec}}


def ps_size(b):
  n = 0
  for s in b:
    n += 1
    for part in s[1:]:
      if isinstance(part, tuple) and part and isinstance(part[0], tuple):
        n += ps_size(part)
  return n


def exhaustive(tier, n):
  return n.get('tape_cap_hits', 0) == 0 and n.get('exploration_truncated', 0) == 0


# --- canaries: the oracle must fire when an edge is removed from the analysis result

def _canary_dropped_edge():
  src = 'def f():\n    while c(1):\n        if c(2):\n            break\n        t(3)\n    t(4)\n'
  tree, fn, graphs = analyse(src)

  def drop(graph):
    brk = [n for n in graph.index.values() if isinstance(n.ast_node, ast.Break)][0]
    brk.next = frozenset()
  v, _, _, _, _ = run_item(src, 'quick', mutate_graph=drop)
  return any(x[0] == 'edge' for x in v)


CANARIES = [('path_oracle_fires_when_the_break_edge_is_removed', _canary_dropped_edge)]
