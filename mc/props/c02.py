"""C02 - functional (tracing) operator backends see complete state.

Programs: side-effect-free, total, definitely-assigned programs with DATA
conditions over traced arguments (exhaustive enumeration, E1); the converted
function is traced ONCE with the tracing backend (E4b) and the resulting term
is evaluated for every input of the domain; oracle = the original function."""
import itertools

from mc import diff
from mc import progspace as ps
from mc import tracing
from mc import util

ID = 'C02'
LEVEL = 'exploration'
RULE = ('programs = every statement list over {assign, read-modify-write, augassign, tuple swap, attribute / constant-key update, '
        'if / if-else on traced data conditions, while on a traced counter, for over a traced range, break, continue, return, '
        'local def + call reading or nonlocal-writing} up to the size bound x epilogues; each converted program is traced once '
        '(both branches of every traced conditional from the same snapshot, loop bodies once on placeholders) and the term is '
        'evaluated on all inputs of {0..3}^2 x loop counts {0,1,2}; distinct_nontrivial = distinct programs with a traced '
        'operator invocation')
ASSUMPTIONS = ['programs are total and definitely assigned by construction (prologue assigns every variable, loops are bounded by '
               'a traced counter the body cannot reassign)',
               'lambdas are not generated (documented lambda limitation); attributes / keys exist before the function runs',
               'the tracing backend is new code: it is validated by agreeing with the original on the whole unchanged tree']

M = ps.Menu
MENUS = {
    'core': M('core', ('W', 'RW', 'AUG', 'ret', 'brk', 'cont'), ('if', 'ifelse', 'while', 'for'), for_targets=('i',), ret=('x',)),
    'jumps': M('jumps', ('RW', 'ret', 'brk', 'cont'), ('if', 'ifelse', 'while', 'for'), vars_=('x',), depth=4, for_targets=('i',), ret=('x',)),
    'clos': M('clos', ('RW', 'DEFR', 'DEFW', 'DEFIFW', 'CALL', 'CALLG', 'brk'), ('if', 'while', 'for'), vars_=('x',), for_targets=('i',), ret=('x',)),
    'state': M('state', ('ATTR', 'SUB', 'AUG', 'TUP', 'RW', 'brk', 'ret'), ('if', 'while', 'for'), for_targets=('i',), ret=('x',)),
    # the local function is reached through an alias / through another local function
    'alias': M('alias', ('RW', 'DEFR', 'DEFW', 'ALIAS', 'CALLK', 'DEFT', 'CALLT'), ('if', 'while', 'for'), vars_=('x',), for_targets=('i',), ret=('x',)),
    # loops with a tuple target
    'targets': M('targets', ('RW', 'AUG', 'brk'), ('if', 'for'), vars_=('x',), for_targets=('ix',), ret=('x',)),
}
PLAN = {
    'quick': [('core', 3, (('x', 'y'), ('x',))), ('jumps', 4, (('x',),)), ('clos', 3, (('x',), ())), ('state', 3, (('x', 'y'), ())), ('alias', 3, (('x',), ())),
              ('targets', 4, (('x',), ()))],
    'thorough': [('core', 4, (('x', 'y'), ('x',))), ('jumps', 5, (('x',),)), ('clos', 4, (('x',), ())), ('state', 4, (('x', 'y'), ())), ('alias', 4, (('x',), ())),
                 ('targets', 5, (('x',), ()))],
}
_S = {'tier': 'quick'}


def setup(tier, seed):
  _S['tier'] = tier


class Rend(ps.Render):
  """Data conditions instead of environment oracles; bounded loops."""

  def stmt(self, s, ind):
    k = s[0]
    e = self.emit
    if k == 'W':
      e(ind, '%s = %d' % (s[1], self.new() % 5))
    elif k == 'RW':
      e(ind, '%s = %s * 3 + %d' % (s[1], s[1], self.new() % 5))
    elif k == 'AUG':
      e(ind, '%s += %d' % (s[1], self.new() % 5 + 1))
    elif k == 'ATTR':
      e(ind, 'zo.a = zo.a * 3 + %d' % (self.new() % 5))
    elif k == 'SUB':
      e(ind, "d['k'] = d['k'] * 3 + %d" % (self.new() % 5))
    elif k == 'DEFR':
      e(ind, 'def g():')
      e(ind + 1, 'return %s * 3 + %d' % (s[1], self.new() % 5))
    elif k == 'DEFW':
      e(ind, 'def g():')
      e(ind + 1, 'nonlocal %s' % s[1])
      e(ind + 1, '%s = %s * 3 + %d' % (s[1], s[1], self.new() % 5))
      e(ind + 1, 'return %s' % s[1])
    elif k == 'DEFIFW':
      site = self.new()
      e(ind, 'def g():')
      e(ind + 1, 'nonlocal %s' % s[1])
      e(ind + 1, 'if (y + %d) %% 2 == 0:' % site)
      e(ind + 2, '%s = %d' % (s[1], site % 5 + 10))
      e(ind + 1, 'return 1')
    elif k == 'CALLG':
      e(ind, 'q = g() + %d' % (self.new() % 5))
    elif k == 'CALL':
      e(ind, '%s = g() + %d' % (s[1], self.new() % 5))
    elif k == 'ret':
      e(ind, 'return (%s, y, zo.a, d[\'k\'])' % (s[1] or 'x'))
    elif k == 'if':
      site = self.new()
      var = ('x', 'y', 'q')[site % 3]
      cond = '(%s + %d) %% 2 == 0' % (var, site) if site % 2 else '%s %% 3 < %d' % (var, 1 + site % 2)
      e(ind, 'if %s:' % cond)
      self.block(s[1], ind + 1)
      if s[2]:
        e(ind, 'else:')
        self.block(s[2], ind + 1)
    elif k == 'while':
      site = self.new()
      e(ind, 'while n < %d:' % (2 + site % 2))
      e(ind + 1, 'n += 1')
      self.block(s[1], ind + 1)
    elif k == 'for':
      self.new()
      if s[1] == 'ix':
        e(ind, 'for i, x in tpairs(m):')
      else:
        e(ind, 'for %s in trange(m):' % s[1])
      self.block(s[2], ind + 1)
    elif k == 'ALIAS':
      e(ind, 'k = g')
    elif k == 'CALLK':
      e(ind, '%s = k() + %d' % (s[1], self.new() % 5))
    elif k == 'DEFT':
      e(ind, 'def g2():')
      e(ind + 1, 'return g()')
    elif k == 'CALLT':
      e(ind, '%s = g2() + %d' % (s[1], self.new() % 5))
    else:
      ps.Render.stmt(self, s, ind)


def item_source(item):
  name, body, epi = item
  r = Rend()
  r.emit(0, 'def f(x, y, q, n, m, zo, d):')
  for st in body:
    # a function object is not data a functional backend can select / carry through a loop:
    # local functions are only defined at the top level of the function body
    for part in st[1:]:
      if isinstance(part, tuple) and part and isinstance(part[0], tuple) and ps.contains_kind(part, ('DEFR', 'DEFW', 'DEFIFW', 'ALIAS', 'DEFT')):
        return None
  if name == 'clos' and not (body and body[0][0] in ('DEFR', 'DEFW', 'DEFIFW')):
    # g must be defined before any call: a harmless first definition
    r.emit(1, 'def g():')
    r.emit(2, 'return x')
  if name == 'alias':
    # g, its alias k and the function g2 that calls g exist before any call
    r.emit(1, 'def g():')
    r.emit(2, 'return x')
    r.emit(1, 'k = g')
    r.emit(1, 'def g2():')
    r.emit(2, 'return g()')
  r.block(body, 1)
  r.emit(1, 'return (%s)' % ', '.join(epi + ('zo.a', "d['k']")) if epi else "return (zo.a, d['k'])")
  return '\n'.join(r.lines) + '\n'


def items(tier, seed):
  seen = set()
  for name, maxn, epis in PLAN[tier]:
    menu = MENUS[name]
    for n in range(1, maxn + 1):
      for body in ps.blocks(n, menu):
        for epi in epis:
          k = (name, body, epi)
          if k in seen:
            continue
          if n <= 3:
            seen.add(k)
          yield k


INPUTS = [(x, y, q, n, m) for x in (0, 1, 2, 3) for y in (0, 1) for q in (0, 3) for n in (0, 1, 3) for m in (0, 1, 2)]


class Obj(object):
  def __init__(self, a):
    self.a = a


def run_src(src, pid, canary=False):
  from malt.impl import api
  from malt.core import converter
  base = api.PyToPy().get_extra_locals()['ag__']
  be = tracing.Backend(base, drop_last_on_set=canary)
  agm = be.module()

  class TracingTranspiler(api.PyToPy):
    def get_extra_locals(self):
      return {'ag__': agm}
  tr = TracingTranspiler()
  api._TRANSPILER = tr    # nested conversions see the same backend
  h = diff.Harness(src, pid, extra_globals={'trange': None})
  h.g['trange'] = h.malt.experimental.do_not_convert(tracing.trange)
  h.g['tpairs'] = h.malt.experimental.do_not_convert(tracing.tpairs)
  viol = []
  try:
    try:
      cf = h.malt.to_graph(h.f)
    except Exception as e:  # pylint:disable=broad-except
      return [('convert-error', 'conversion failed with %s: %s' % (type(e).__name__, str(e).strip().split('\n')[0][:160]))], be.stats, 0
    # trace once
    A = [tracing.T('arg', i) for i in range(7)]
    zo = Obj(A[5])
    d = {'k': A[6]}
    try:
      traced = cf(A[0], A[1], A[2], A[3], A[4], zo, d)
    except tracing.TracerBoolError as e:
      return [('native-branch-on-traced-value', 'tracing failed: %s' % e)], be.stats, 0
    except Exception as e:  # pylint:disable=broad-except
      return [('trace-error', 'tracing raised %s: %s' % (type(e).__name__, str(e)[:200]))], be.stats, 0
    nin = 0
    from malt.operators import variables
    for inp in INPUTS:
      nin += 1
      want = h.f(*(inp + (Obj(7 + inp[0]), {'k': 5 + inp[1]})))
      ev = tracing.Evaluator(inp + (7 + inp[0], 5 + inp[1]))
      try:
        got = ev.run(traced)
      except Exception as e:  # pylint:disable=broad-except
        viol.append(('eval-error', 'evaluating the traced function on %r raised %s: %s' % (inp, type(e).__name__, str(e)[:120])))
        break
      if isinstance(got, variables.UndefinedReturnValue):
        got = None
      if got != want:
        viol.append(('result', 'f%r = %r, traced-and-evaluated result = %r' % (inp, want, got)))
        break
  finally:
    h.close()
  return viol, be.stats, len(INPUTS)


def reduce_witness(item, kind):
  name, body, epi = item

  def fails(b, e):
    s = item_source((name, b, e))
    if s is None:
      return None
    try:
      compile(s, '<r>', 'exec')
    except SyntaxError:
      return None
    try:
      v = run_src(s, 'red')[0]
    except Exception:  # pylint:disable=broad-except
      return None
    for x in v:
      if x[0] == kind:
        return x
    return None
  best = fails(body, epi)
  if best is None:
    return body, epi, None
  changed = True
  steps = 0
  while changed and steps < 60:
    changed = False
    cands = [(b, epi) for b in ps.reductions(body)] + [(body, tuple(v for v in epi if v != dd)) for dd in epi]
    for b, e in cands:
      steps += 1
      v = fails(b, e)
      if v is not None:
        body, epi, best, changed = b, e, v, True
        break
  return body, epi, best


def call_inside_control_flow(body):
  for st in body:
    for part in st[1:]:
      if isinstance(part, tuple) and part and isinstance(part[0], tuple) and ps.contains_kind(part, ('CALL', 'CALLG')):
        return True
  return False


def check(item):
  src = item_source(item)
  if src is None:
    return {'n': {'invalid_programs_skipped': 1}}
  try:
    compile(src, '<gen>', 'exec')
  except SyntaxError:
    return {'n': {'invalid_programs_skipped': 1}}
  viol, stats, nin = run_src(src, 'c02')
  out = []
  for kind, msg in viol:
    rb, re_, rv = reduce_witness(item, kind)
    rsrc = item_source((item[0], rb, re_)) or src
    sig = '%s|%s|%s|epi=%s|%s' % (kind, item[0], ps.skeleton(rb), ''.join(re_), rv[1][:160] if rv else 'unreduced')
    if kind == 'result' and ps.contains_kind(rb, ('DEFW', 'DEFIFW')) and call_inside_control_flow(rb):
      # one documented class (see known_findings.json): the reduced witness calls, from inside a loop or branch, a local
      # function that rebinds a nonlocal variable of the enclosing function
      sig = 'result|nonlocal-write-by-a-local-function-called-inside-control-flow'
    out.append(util.V(sig, '%s: %s\nreduced witness:\n%s' % (kind, msg, rsrc), item, source=src))
  traced = stats['traced_if'] + stats['traced_while'] + stats['traced_for']
  n = {'evaluations': nin, 'programs': 1, 'inputs_evaluated': nin}
  n.update(stats)
  return {'viol': out, 'n': n, 'outcome': src + repr(sorted(v[0] for v in viol)), 'nontrivial': src if traced else None,
          'sample': {'source': src, 'traced_operator_invocations': traced}}


def exhaustive(tier, n):
  return True


def _canary():
  src = ('def f(x, y, q, n, m, zo, d):\n    if (x + 1) % 2 == 0:\n        x = x * 3 + 1\n        y = 4\n'
         "    return (x, y, zo.a, d['k'])\n")
  v = run_src(src, 'c02canary', canary=True)[0]
  return any(k[0] == 'result' for k in v)


CANARIES = [('evaluation_disagrees_when_the_backend_drops_an_output', _canary)]
