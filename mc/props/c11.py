"""C11 - generated names never capture, shadow or clash with user names.

Programs: control skeleton x role x adversarial identifier (the converter's own
vocabulary).  Oracles: differential behaviour on all tapes (conversion must
succeed), names returned by Namer.new_symbol disjoint from the identifiers of
the original source and of the function's namespace, and no binding introduced
by the converter may coincide with a user-visible name."""
import ast
import builtins

from mc import diff
from mc import tape as tapemod
from mc import util

ID = 'C11'
LEVEL = 'exploration'
RULE = ('programs = 7 control skeletons (if, while, for+break, for+continue, return in loop, nested def, lambda) x 11 roles of '
        'the adversarial identifier (state variable, assigned in block, read-only local, parameter, global read, global '
        'declared, closure variable, nested function name, loop target, lambda parameter, global callable) x the converter '
        'vocabulary (quick: 16 names, thorough: + numbered variants and pairs); executions = all tapes; distinct_nontrivial = '
        'distinct programs')
ASSUMPTIONS = ['"visible to user code" = identifiers occurring in the original source, the function\'s globals, its closure names and builtins',
               'introduced names = names bound in the generated function that are not bound in the original']

VOCAB = ('do_return', 'retval_', 'break_', 'continue_', 'fscope', 'lscope', 'get_state', 'set_state', 'if_body', 'else_body',
         'loop_body', 'loop_test', 'extra_test', 'itr', 'vars_', 'ag__f', 'inner_factory', 'outer_factory',
         # first numbered variants (what a nested function / second statement gets)
         'fscope_1', 'get_state_1', 'loop_body_1', 'do_return_1', 'block_vars')
NUMBERED = tuple(v + '_1' for v in VOCAB if not v.endswith('_1') and v != 'block_vars') + ('ag__inner', 'ag__lam', 'block_vars_1')
ROLES = ('state', 'assigned', 'readonly', 'param', 'globalread', 'globaldecl', 'closure', 'fnname', 'looptarget', 'lambdaparam',
         'globalcall', 'nestedglobal',
         # the variable of `except E as V` (block inside the handler, V read after it); a name first mentioned AFTER the
         # block, in the body of an enclosing loop; the parameter of a lambda inside a nested def whose body makes a call
         'exceptvar', 'afterblock', 'nestedlambdaparam',
         # the handler name of a try nested in the body of another handler
         'nestedexceptvar',
         # a module global that the function reaches only through eval (its name occurs in no identifier of the source)
         'evalglobal')
BLOCKS = ('if', 'while', 'forbreak', 'forcontinue', 'retloop', 'nesteddef', 'lambda')
_S = {'tier': 'quick'}


def setup(tier, seed):
  _S['tier'] = tier


def items(tier, seed):
  names = VOCAB if tier == 'quick' else VOCAB + NUMBERED
  for v in names:
    for role in ROLES:
      for blk in BLOCKS:
        if role == 'nestedglobal' and blk not in ('nesteddef', 'lambda'):
          continue   # a global read only from a nested function / lambda body
        if role == 'evalglobal' and blk in ('nesteddef', 'lambda'):
          continue   # eval inside a nested function / lambda body sees other locals (C14's subject)
        yield (v, role, blk, None)
  if tier == 'thorough':
    for v in VOCAB:
      for w in VOCAB:
        if v < w:
          for blk in BLOCKS:
            yield (v, 'state', blk, w)
  else:
    # a second adversarial name as an extra read-only local, for the state role
    pairs = list(zip(VOCAB, VOCAB[1:] + VOCAB[:1]))
    for v, w in pairs:
      for blk in BLOCKS:
        yield (v, 'state', blk, w)


def render(item, pid=0):
  V, role, blk, W = item
  k = [0]

  def K():
    k[0] += 1
    return k[0]
  # how the block uses V
  if role in ('state', 'param', 'globaldecl', 'closure'):
    use = ['%s = %s * 10 + %d' % (V, V, K())]
  elif role == 'assigned':
    use = ['%s = %d' % (V, K())]
  elif role in ('readonly', 'globalread', 'looptarget', 'nestedglobal'):
    use = ['t(%d, %s)' % (K(), V)]
  elif role in ('fnname', 'globalcall'):
    use = ['t(%d, %s())' % (K(), V)]
  elif role == 'lambdaparam':
    use = ['q = (lambda %s: %s + 1)(q)' % (V, V)]
  elif role in ('exceptvar', 'afterblock', 'nestedlambdaparam', 'nestedexceptvar'):
    use = ['q = q * 10 + %d' % K()]
  elif role == 'evalglobal':
    use = ['t(%d, eval(%r) + q * 0)' % (K(), V)]
  if W:
    use = use + ['t(%d, %s)' % (K(), W)]
  ind = lambda ls: ['    ' + l for l in ls]
  if blk == 'if':
    body = ['if c(%d):' % K()] + ind(use)
  elif blk == 'while':
    body = ['while c(%d):' % K()] + ind(use)
  elif blk == 'forbreak':
    body = ['for i in it(%d):' % K()] + ind(['if c(%d):' % K(), '    break'] + use)
  elif blk == 'forcontinue':
    body = ['for i in it(%d):' % K()] + ind(['if c(%d):' % K(), '    continue'] + use)
  elif blk == 'retloop':
    body = ['while c(%d):' % K()] + ind(['if c(%d):' % K(), '    return (%d, q)' % pid] + use)
  elif blk == 'nesteddef':
    decl = []
    if role in ('state', 'closure', 'assigned') or (role == 'param'):
      decl = ['nonlocal %s' % V]
    if role == 'globaldecl':
      decl = ['global %s' % V]
    if role == 'lambdaparam':
      decl = ['nonlocal q']
    body = ['def inner():'] + ind(decl + ['if c(%d):' % K()] + ind(use)) + ['inner()']
  elif blk == 'lambda':
    if role in ('state', 'param', 'globaldecl', 'closure', 'assigned'):
      body = ['q = (lambda: %s * 10 + %d if c(%d) else %s)()' % (V, K(), K(), V)]
    elif role in ('fnname', 'globalcall'):
      body = ['q = (lambda: %s() if c(%d) else 0)()' % (V, K())]
    elif role == 'lambdaparam':
      body = ['q = (lambda %s: %s + 1 if c(%d) else %s)(q)' % (V, V, K(), V)]
    else:
      body = ['q = (lambda: %s if c(%d) else 0)()' % (V, K())]
  if role == 'exceptvar':
    body = (['try:', '    raise E(mark(%d))' % K(), 'except E as %s:' % V] + ind(body + ['t(%d, type(%s).__name__)' % (K(), V)]))
  elif role == 'nestedexceptvar':
    inner = (['try:', '    raise E(mark(%d))' % K(), 'except E as %s:' % V] + ind(body + ['t(%d, type(%s).__name__)' % (K(), V)]))
    body = ['try:', '    raise E2()', 'except E2 as outer_err:'] + ind(inner)
  elif role == 'afterblock':
    body = ['for j in it(%d):' % K()] + ind(body + ['%s = %d' % (V, K()), 't(%d, %s)' % (K(), V)])
  elif role == 'nestedlambdaparam':
    body = body + ['def inner2():', '    return (lambda %s: t(%d, %s))(q)' % (V, K(), V), 'q = inner2()']
  pre = ['q = 1']
  post = []
  params = 'zo, d'
  glob = {}
  if role in ('state', 'readonly'):
    pre.append('%s = 5' % V)
  elif role == 'assigned':
    pre.append('%s = 6' % V)
  elif role == 'param':
    params = 'zo, d, %s=7' % V
  elif role in ('globalread', 'nestedglobal', 'evalglobal'):
    glob[V] = 70
  elif role == 'globaldecl':
    pre.insert(0, 'global %s' % V)
    glob[V] = 71
  elif role == 'closure':
    pre.insert(0, 'nonlocal %s' % V)
  elif role == 'fnname':
    pre += ['def %s():' % V, '    return %d' % K()]
  elif role == 'looptarget':
    body = ['for %s in it(%d):' % (V, K())] + ind(body)
    pre.append('%s = 3' % V)
  elif role == 'globalcall':
    glob[V] = 'CALLABLE'
  if W:
    pre.append('%s = 4' % W)
  ret = ['return (%d, q, %s)' % (pid, V if role not in ('fnname', 'globalcall', 'lambdaparam', 'nestedglobal', 'exceptvar', 'afterblock', 'nestedlambdaparam', 'nestedexceptvar', 'evalglobal') else 'q')]
  lines = ['def f(%s):' % params] + ['    ' + l for l in pre + body + post + ret]
  if role == 'closure':
    lines = ['def make():', '    %s = 3' % V] + ['    ' + l for l in lines] + ['    return f', 'f = make()']
  return '\n'.join(lines) + '\n', glob


def identifiers(tree):
  out = set()
  for n in ast.walk(tree):
    if isinstance(n, ast.Name):
      out.add(n.id)
    elif isinstance(n, ast.arg):
      out.add(n.arg)
    elif isinstance(n, (ast.FunctionDef, ast.ClassDef)):
      out.add(n.name)
    elif isinstance(n, (ast.Global, ast.Nonlocal)):
      out.update(n.names)
    elif isinstance(n, ast.Attribute):
      pass
  return out


def bound_names(fn_node):
  out = set()
  for n in ast.walk(fn_node):
    if isinstance(n, ast.Name) and isinstance(n.ctx, (ast.Store, ast.Del)):
      out.add(n.id)
    elif isinstance(n, ast.arg):
      out.add(n.arg)
    elif isinstance(n, (ast.FunctionDef, ast.ClassDef)) and n is not fn_node:
      out.add(n.name)
    elif isinstance(n, ast.withitem) and n.optional_vars is not None:
      pass
  return out


def run_item(item, pid, leak_symbol=False):
  from malt.pyct import naming
  from malt.impl import api
  import malt
  api._TRANSPILER = api.PyToPy()   # fresh cache: generated files are purged after every item
  src, glob = render(item, pid)
  compile(src, '<c11>', 'exec')
  viol = []
  outcomes = []
  extra = {}
  for k, v in glob.items():
    extra[k] = v
  h = diff.Harness(src, pid, extra_globals=extra)
  for k, v in glob.items():
    if v == 'CALLABLE':
      h.g[k] = malt.experimental.do_not_convert(lambda: 9)
  f = h.f
  generated = []
  orig_new = naming.Namer.new_symbol

  def new_symbol(self, name_root, reserved):
    r = orig_new(self, name_root, reserved)
    if leak_symbol:
      r = item[0]
    # module-level symbols (the two factories and the transformed function's own name) live outside the user function:
    # a user LOCAL of the same name shadows them harmlessly; they clash only with names resolved through globals / closure
    module_level = name_root in ('inner_factory', 'outer_factory') or name_root.startswith('ag__')
    generated.append((r, module_level))
    return r
  naming.Namer.new_symbol = new_symbol
  nexec = 0
  try:
    try:
      cf = malt.to_graph(f)
      code = malt.to_code(f)
    except Exception as e:  # pylint:disable=broad-except
      return src, [('convert-error', 'conversion failed with %s: %s' % (type(e).__name__, str(e).strip().split('\n')[0][:160]), ())], 0, []
    finally:
      naming.Namer.new_symbol = orig_new
    otree = ast.parse(src)
    oids = identifiers(otree)
    outer_visible = set(f.__globals__) | set(f.__code__.co_freevars) | set(dir(builtins))
    visible = oids | outer_visible
    clash = sorted(set(r for r, ml in generated if (r in outer_visible if ml else r in visible)))
    if clash:
      viol.append(('generated-name-visible', 'Namer.new_symbol returned %s, which user code can see' % clash, ()))
    gtree = ast.parse(code)
    ofn = [n for n in ast.walk(otree) if isinstance(n, ast.FunctionDef) and n.name == 'f'][0]
    introduced = bound_names(gtree.body[0]) - bound_names(ofn)
    clash2 = sorted(n for n in introduced if n in (oids | set(f.__code__.co_freevars)))
    if clash2:
      viol.append(('introduced-binding-clash', 'the generated code binds %s, which the original code also uses' % clash2, ()))

    def run_ref():
      reset()
      return h._run(h.f)

    def reset():
      for k, v in glob.items():
        if v != 'CALLABLE':
          h.g[k] = v
      if item[1] == 'closure':
        set_cell(f, item[0], 3)

    def on_exec(tp, asked, ref):
      outcomes.append(ref)
      reset()
      got = h.run(cf, tp)
      dd = diff.first_difference(ref, got)
      if dd and not any(v[0].startswith('behaviour') for v in viol):
        viol.append(('behaviour-' + dd[0], dd[1], tp))
    nexec, _, _ = tapemod.explore(h.env, run_ref, on_exec, dev=3)
  finally:
    naming.Namer.new_symbol = orig_new
    h.close()
  return src, viol, nexec, outcomes


def set_cell(fn, name, value):
  idx = fn.__code__.co_freevars.index(name)
  fn.__closure__[idx].cell_contents = value


def stable_id(item):
  import hashlib
  return int(hashlib.sha1(repr(item).encode()).hexdigest()[:6], 16) + 1000


def check(item):
  src, viol, nexec, outcomes = run_item(item, stable_id(item))
  out = []
  for kind, msg, tp in viol:
    sig = '%s|name=%s|role=%s|block=%s|with=%s' % (kind, item[0], item[1], item[2], item[3])
    if kind == 'convert-error':
      sig += '|' + msg[:100]
    if kind == 'generated-name-visible' and item[1] in ('lambdaparam', 'nestedlambdaparam'):
      # one documented class: the clashing user name is bound only as a parameter of a nested lambda, where it shadows
      # the generated symbol (no capture: behaviour is checked separately)
      sig = 'generated-name-visible|parameter-of-nested-lambda'
    out.append(util.V(sig, '%s (identifier %s as %s in a %s block) on tape %s: %s\nprogram:\n%s' % (
        kind, item[0], item[1], item[2], list(tp), msg, src), item, source=src, tape=list(tp)))
  return {'viol': out, 'n': {'evaluations': max(1, nexec), 'programs': 1, 'executions': nexec},
          'outcome': repr(outcomes), 'nontrivial': src, 'sample': {'item': list(item), 'source': src}}


def exhaustive(tier, n):
  return True


def _canary():
  v = run_item(('break_', 'state', 'forbreak', None), 4242, leak_symbol=True)[1]
  return any(k[0] in ('generated-name-visible', 'convert-error') or k[0].startswith('behaviour') for k in v)


CANARIES = [('oracle_fires_when_new_symbol_returns_a_user_name', _canary)]
