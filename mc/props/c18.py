"""C18 - A-normal-form transformation preserves evaluation order and yields ANF.

Programs: expression trees (every form with one nested sub-form at every
operand position, side-effecting traced call in every leaf) in every statement
position, under the default configuration and edge-pattern configurations.
Oracle: the original statement executed in the same environment (ordered log of
operand evaluations and operations, value / exception); shape check of the
output; distinct temporaries; rejected constructs raise ValueError."""
import ast
import itertools

from mc import util

ID = 'C18'
LEVEL = 'exploration'
RULE = ('expressions = 25 forms (call with positional / keyword / starred arguments, attribute, subscript, 2- and 3-part slices, '
        'binary, unary, single compare, list / tuple / set / dict display, displays with * and ** unpacking, and the lazy forms and / or / ifexp / lambda / '
        'comprehension / chained compare) with a traced call t(i) in every operand position; depth 2 = one nested form at each '
        'operand position (thorough: depth 3); statement positions = expr, assign to name / attribute / subscript / tuple, '
        'augassign, return, raise, if test, for iterable, with item, del, while body; configurations = default + edge-pattern '
        'configurations; distinct_nontrivial = distinct (statement, configuration) pairs accepted by the transformer')
ASSUMPTIONS = ['temporaries must be distinct from each other; a clash with a user name tmp_1001 is outside the statement',
               'every operand is a traced call returning an object whose operations are logged, so evaluation order is fully observable']

_S = {'tier': 'quick'}


def setup(tier, seed):
  _S['tier'] = tier


# --- expression forms: (template, number of holes, lazy?)
FORMS = [
    ('call1', '%s(%s)', 2, False), ('call2', '%s(%s, %s)', 3, False), ('callkw', '%s(%s, k=%s)', 3, False), ('callstar', '%s(*%s)', 2, False),
    ('callkwstar', '%s(**kwd(%s))', 2, False),
    ('attr', '%s.a', 1, False), ('sub', '%s[%s]', 2, False), ('slice2', '%s[%s:%s]', 3, False), ('slice3', '%s[%s:%s:%s]', 4, False),
    ('bin', '(%s + %s)', 2, False), ('mul', '(%s * %s)', 2, False), ('neg', '(-%s)', 1, False), ('cmp', '(%s < %s)', 2, False),
    ('list', '[%s, %s]', 2, False), ('tuple', '(%s, %s)', 2, False), ('set', '{%s, %s}', 2, False), ('dict', '{%s: %s, %s: %s}', 4, False),
    ('liststar', '[%s, *%s, %s]', 3, False), ('tuplestar', '(*%s, %s)', 2, False), ('dictstar', '{**%s, %s: %s}', 3, False),
    ('and', '(%s and %s)', 2, True), ('or', '(%s or %s)', 2, True), ('ifexp', '(%s if %s else %s)', 3, True),
    ('cmpchain', '(%s < %s < %s)', 3, True), ('cmpchain_names', '(x < y < %s)', 1, True), ('and_name', '(x and %s)', 1, True),
    ('ifexp_name', '(%s if x else y)', 1, True), ('lambda', '(lambda: %s)', 1, True), ('listcomp', '[%s for j in %s]', 2, True),
    # lazy forms with trivial operands only (accepted as they are): what follows them inside an enclosing lazy form is still lazy
    ('and_trivial', '(x and y)', 0, True), ('ifexp_trivial', '(x if y else x)', 0, True),
    # Ellipsis subscript of a plain name
    ('ellip', 'x[...]', 0, False),
    # user identifiers spelled like the placeholders of the transformer's own templates
    ('tplname', '(temp_name + %s)', 1, False), ('tplexpr', '(expr + %s)', 1, False), ('tplattr', '%s.temp_name', 1, False),
]
STRICT_FORMS = [f for f in FORMS if not f[3]]
LAZY_FORMS = [f for f in FORMS if f[3]]

STMTS = [
    ('expr', '{E}'), ('assign', 'x = {E}'), ('assign_attr', 't({K}).a = {E}'), ('assign_sub', 't({K})[t({K2})] = {E}'),
    ('assign_tuple', 'x, y = {E}'), ('augassign', 'x += {E}'), ('aug_attr', 't({K}).a += {E}'), ('aug_sub', 't({K})[t({K2})] += {E}'),
    ('return', 'return {E}'),
    ('raise', 'raise EXC({E})'), ('if', 'if {E}:\n        t({K})'), ('for', 'for i in {E}:\n        t({K})'),
    ('with', 'with {E}:\n        t({K})'), ('del_sub', 'del t({K})[{E}]'), ('del_attr', 'del ({E}).a'),
    ('while', 'while fuel():\n        x = {E}'),
    ('forelse', 'for i in t({K}):\n        t({K2})\n    else:\n        x = {E}'),
    ('whileelse', 'while fuel():\n        t({K})\n    else:\n        x = {E}'),
    ('ifelse', 'if t({K}):\n        t({K2})\n    else:\n        x = {E}'),
    ('tryfinally', 'try:\n        x = {E}\n    finally:\n        y = {E2}'),
    ('tryexcept', 'try:\n        t({K})\n    except EXC:\n        x = {E}\n    else:\n        y = {E2}'),
]


class Gen(object):
  def __init__(self):
    self.k = 0

  def leaf(self):
    self.k += 1
    return 't(%d)' % self.k


def exprs(depth):
  """(description, builder) pairs; builder(gen) -> source."""
  out = []
  for name, tmpl, n, lazy in FORMS:
    out.append(((name,), (name, None, None)))
  if depth >= 2:
    for name, tmpl, n, lazy in FORMS:
      for p in range(n):
        for name2, tmpl2, n2, lazy2 in FORMS:
          out.append(((name, p, name2), (name, p, (name2, None, None))))
  if depth >= 3:
    for name, tmpl, n, lazy in STRICT_FORMS:
      for p in range(n):
        for name2, tmpl2, n2, lazy2 in STRICT_FORMS:
          for p2 in range(n2):
            for name3, tmpl3, n3, lazy3 in STRICT_FORMS[:13]:
              out.append(((name, p, name2, p2, name3), (name, p, (name2, p2, (name3, None, None)))))
  return out


FORM_BY_NAME = {f[0]: f for f in FORMS}


def build(spec, gen):
  name, p, sub = spec
  _, tmpl, n, lazy = FORM_BY_NAME[name]
  holes = []
  for i in range(n):
    if p is not None and i == p:
      holes.append(build(sub, gen))
    else:
      holes.append(gen.leaf())
  return tmpl % tuple(holes)


def contains_lazy(spec):
  name, p, sub = spec
  if FORM_BY_NAME[name][3]:
    return True
  return sub is not None and contains_lazy(sub)


CONFIGS = ['default', 'all_expr', 'call_args_only', 'binop_only', 'if_test_only', 'leave_attr', 'call_children']


def make_config(name):
  from malt.pyct.common_transformers import anf
  if name == 'default':
    return None
  if name == 'all_expr':
    return [(anf.ASTEdgePattern(anf.ANY, anf.ANY, ast.expr), anf.REPLACE)]
  if name == 'call_args_only':
    return [(anf.ASTEdgePattern(ast.Call, 'args', anf.ANY), anf.REPLACE)]
  if name == 'binop_only':
    return [(anf.ASTEdgePattern(ast.BinOp, anf.ANY, anf.ANY), anf.REPLACE)]
  if name == 'if_test_only':
    return [(anf.ASTEdgePattern(ast.If, 'test', anf.ANY), anf.REPLACE)]
  if name == 'call_children':
    return [(anf.ASTEdgePattern(ast.Call, anf.ANY, anf.ANY), anf.REPLACE)]
  if name == 'leave_attr':
    literal = (ast.Constant, ast.Name)
    return [(anf.ASTEdgePattern(anf.ANY, anf.ANY, literal), anf.LEAVE), (anf.ASTEdgePattern(ast.Attribute, anf.ANY, anf.ANY), anf.LEAVE),
            (anf.ASTEdgePattern(anf.ANY, anf.ANY, ast.expr), anf.REPLACE)]
  raise ValueError(name)


def items(tier, seed):
  depth = 2 if tier == 'quick' else 3
  es = exprs(depth)
  for desc, spec in es:
    for sname, _ in STMTS:
      if len(desc) > 3 and sname not in ('assign', 'expr', 'assign_sub', 'return'):
        continue
      yield (sname, desc, 'default')
  for lname, _, ln, _ in LAZY_FORMS:
    for p in range(ln):
      for cfg in ('call_children', 'call_args_only', 'all_expr'):
        for sname in ('assign', 'if'):
          yield (sname, (lname, p, 'call1', 1, 'call1'), cfg)
  for desc, spec in es:
    if len(desc) > 3:
      continue
    for cfg in CONFIGS[1:]:
      for sname in ('assign', 'if', 'expr'):
        yield (sname, desc, cfg)
  for it in seq_items():
    yield it


def seq_items():
  """The same live function object transformed twice (parser.parse_entity each time) under two configurations."""
  for name, tmpl, n, lazy in FORMS:
    for sname in ('assign', 'return', 'if'):
      for ca in CONFIGS:
        for cb in CONFIGS:
          if ca != cb:
            yield ('seq', sname, (name,), ca, cb)


def check_seq(item):
  from malt.pyct.common_transformers import anf
  from malt.pyct import parser
  import linecache
  _, sname, desc, ca, cb = item
  src = source((sname, desc, ca))
  fname = '<c18seq_%s_%s_%s_%s>' % (sname, desc[0], ca, cb)
  linecache.cache[fname] = (len(src), None, src.splitlines(True), fname)
  g = {}
  try:
    exec(compile(src, fname, 'exec'), g)  # pylint:disable=exec-used
    f = g['f']

    def tr(node, cfg):
      try:
        return ast.unparse(anf.transform(node, simple_context(), config=make_config(cfg)))
      except ValueError:
        return 'ValueError'
    first = tr(parser.parse_entity(f, ())[0], ca)
    second = tr(parser.parse_entity(f, ())[0], cb)
    fresh = tr(ast.parse(src).body[0], cb)
  finally:
    linecache.cache.pop(fname, None)
  viol = []
  if second != fresh:
    viol.append(('second-transformation-differs', 'after the function was transformed under %s, transforming it again under %s gives\n%s\ninstead of\n%s' % (ca, cb, second, fresh)))
  return src, viol, first


def spec_of(desc):
  if len(desc) == 1:
    return (desc[0], None, None)
  if len(desc) == 3:
    return (desc[0], desc[1], (desc[2], None, None))
  return (desc[0], desc[1], (desc[2], desc[3], (desc[4], None, None)))


def source(item):
  sname, desc, cfg = item
  gen = Gen()
  tmpl = dict(STMTS)[sname]
  # statement-level operands that are evaluated BEFORE the expression get their numbers first when they come first in the text
  pre = tmpl.index('{E}')
  ks = {}
  if '{K}' in tmpl and tmpl.index('{K}') < pre:
    ks['K'] = gen.leaf()[2:-1]
  if '{K2}' in tmpl and tmpl.index('{K2}') < pre:
    ks['K2'] = gen.leaf()[2:-1]
  E = build(spec_of(desc), gen)
  if '{K}' in tmpl and 'K' not in ks:
    ks['K'] = gen.leaf()[2:-1]
  if '{K2}' in tmpl and 'K2' not in ks:
    ks['K2'] = gen.leaf()[2:-1]
  stmt = tmpl.replace('{E}', E)
  if '{E2}' in stmt:
    stmt = stmt.replace('{E2}', build(spec_of(desc), gen))
  for k, v in ks.items():
    stmt = stmt.replace('{%s}' % k, v)
  return 'def f(x, y):\n    %s\n    return (x, y)\n' % stmt


# --- run-time environment: every operation on a value is logged

class V(object):
  """A value whose every operation is an observable effect."""

  def __init__(self, env, ident):
    self.env = env
    self.ident = ident

  def _new(self, what, *others):
    self.env.n += 1
    # structural identity (what was computed from what), so that results stay comparable when two runs differ in the
    # order of their operations
    ident = '%s(%s)' % (what, ','.join(str(x) for x in (self.ident,) + tuple(rid(o) for o in others)))
    self.env.log.append((what, self.ident) + tuple(rid(o) for o in others) + (ident,))
    return V(self.env, ident)

  def __call__(self, *a, **k):
    return self._new('call', *(a + tuple(sorted(k.items(), key=lambda kv: kv[0]))))

  def __getattr__(self, name):
    if name.startswith('__'):
      raise AttributeError(name)
    return self._new('getattr:' + name)

  def __setattr__(self, name, v):
    if name in ('env', 'ident'):
      object.__setattr__(self, name, v)
    else:
      self.env.log.append(('setattr:' + name, self.ident, rid(v)))

  def __delattr__(self, name):
    self.env.log.append(('delattr:' + name, self.ident))

  def __getitem__(self, k):
    return self._new('getitem', k)

  def __setitem__(self, k, v):
    self.env.log.append(('setitem', self.ident, idx(k), rid(v)))

  def __delitem__(self, k):
    self.env.log.append(('delitem', self.ident, idx(k)))

  def __add__(self, o):
    return self._new('add', o)

  def __radd__(self, o):
    return self._new('radd', o)

  def __iadd__(self, o):
    return self._new('iadd', o)

  def __mul__(self, o):
    return self._new('mul', o)

  def __neg__(self):
    return self._new('neg')

  def __lt__(self, o):
    self.env.log.append(('lt', self.ident, rid(o)))
    return self.env.truth(self.ident)

  def __bool__(self):
    self.env.log.append(('bool', self.ident))
    return self.env.truth(self.ident)

  def __iter__(self):
    self.env.log.append(('iter', self.ident))
    return iter([self._new('item0'), self._new('item1')])

  def __enter__(self):
    self.env.log.append(('enter', self.ident))
    return self

  def __exit__(self, *a):
    self.env.log.append(('exit', self.ident))
    return False

  def __hash__(self):
    return hash(self.ident)

  def __eq__(self, o):
    return isinstance(o, V) and o.ident == self.ident

  def keys(self):
    return ['kk']

  def __repr__(self):
    return 'V(%s)' % self.ident


def rid(o):
  """Stable identity of an operand in the log."""
  if isinstance(o, V):
    return o.ident
  if isinstance(o, tuple):
    return tuple(rid(x) for x in o)
  if callable(o):
    return '<callable>'
  if isinstance(o, slice):
    return ('slice', rid(o.start), rid(o.stop), rid(o.step))    # no object addresses in the log
  return repr(o)


def idx(k):
  if isinstance(k, slice):
    return ('slice', rid(k.start), rid(k.stop), rid(k.step))
  return rid(k)


class Env(object):
  def __init__(self, truth_bits):
    self.log = []
    self.n = 0
    self.bits = truth_bits
    self.asked = 0
    self.fuel = 2

  def truth(self, ident):
    # the truth value of an object is a fixed function of its identity (asking twice gives the same answer)
    b = (self.bits >> (sum(ord(ch) for ch in ident) % 8)) & 1
    return bool(b)

  def t(self, i):
    self.log.append(('t', i))
    return V(self, 't%d' % i)

  def kwd(self, v):
    self.log.append(('kwd', v.ident))
    return {'k': v}

  def fuel_fn(self):
    self.fuel -= 1
    return self.fuel >= 0


class EXC(Exception):
  pass


def run(code_obj, bits):
  env = Env(bits)
  g = {'t': env.t, 'kwd': env.kwd, 'EXC': EXC, 'fuel': env.fuel_fn, 'temp_name': V(env, 'g_temp_name'), 'expr': V(env, 'g_expr')}
  exec(code_obj, g)  # pylint:disable=exec-used
  x0, y0 = V(env, 'x0'), V(env, 'y0')
  try:
    r = g['f'](x0, y0)
    res = ('ret', norm(r))
  except EXC as e:
    res = ('EXC', norm(e.args))
  except Exception as e:  # pylint:disable=broad-except
    res = ('exc', type(e).__name__, str(e)[:60])
  return res, env.log


def norm(v):
  if isinstance(v, V):
    return v.ident
  if isinstance(v, (list, tuple)):
    return tuple(norm(x) for x in v)
  if isinstance(v, (set, frozenset)):
    return ('set',) + tuple(sorted((norm(x) for x in v), key=repr))
  if isinstance(v, dict):
    return ('dict',) + tuple((norm(k), norm(x)) for k, x in v.items())
  if callable(v) and not isinstance(v, V):
    return '<callable>'
  return repr(v)


def simple_context():
  from malt.pyct import transformer
  info = transformer.EntityInfo(name='f', source_code=None, source_file=None, future_features=(), namespace=None)
  return transformer.Context(info, None, None)


def first_inversion(log_o, log_t):
  """Signature material: the first pair of effects whose relative order differs."""
  pos = {e: i for i, e in enumerate(log_t)}
  for i, e in enumerate(log_o):
    if i < len(log_t) and log_t[i] != e:
      return 'original %r, transformed %r at position %d' % (e, log_t[i], i)
  return 'logs differ in length: %d vs %d' % (len(log_o), len(log_t))


def is_anf_ok(tree, cfgname):
  """Shape check for the default configuration: every operand of a strict expression is a Name or a literal."""
  bad = []
  if cfgname != 'default':
    return bad
  for n in ast.walk(tree):
    if isinstance(n, (ast.BinOp, ast.UnaryOp, ast.Compare, ast.Call, ast.Attribute, ast.Subscript, ast.List, ast.Tuple, ast.Set, ast.Dict)):
      if isinstance(getattr(n, 'ctx', None), (ast.Store, ast.Del)):
        continue
      for field, val in ast.iter_fields(n):
        vals = val if isinstance(val, list) else [val]
        for v in vals:
          for leaf in flatten_operand(v):
            if isinstance(leaf, ast.expr) and not isinstance(leaf, (ast.Name, ast.Constant)):
              bad.append('%s.%s holds %s' % (type(n).__name__, field, ast.unparse(leaf)[:40]))
  return bad


def flatten_operand(v):
  if v is None:
    return []
  if isinstance(v, ast.Starred):
    return [v.value]
  if isinstance(v, ast.keyword):
    return [v.value]
  if isinstance(v, ast.Slice):
    return [x for x in (v.lower, v.upper, v.step) if x is not None]
  if isinstance(v, (ast.expr_context, ast.operator, ast.unaryop, ast.cmpop)):
    return []
  return [v]


def check_item(item, swap=False):
  from malt.pyct.common_transformers import anf
  sname, desc, cfg = item
  src = source(item)
  tree = ast.parse(src)
  code_o = compile(tree, '<c18o>', 'exec')
  lazy = contains_lazy(spec_of(desc))
  viol = []
  try:
    fn_node = ast.parse(src).body[0]
    new = anf.transform(fn_node, simple_context(), config=make_config(cfg))
    status = 'accepted'
  except ValueError as e:
    return src, [], 'rejected'
  except Exception as e:  # pylint:disable=broad-except
    return src, [('transform-error', 'anf.transform raised %s: %s' % (type(e).__name__, str(e)[:120]))], 'error'
  mod = ast.Module(body=[new], type_ignores=[])
  ast.fix_missing_locations(mod)
  try:
    tsrc = ast.unparse(mod)
    code_t = compile(ast.parse(tsrc), '<c18t>', 'exec')
  except Exception as e:  # pylint:disable=broad-except
    return src, [('invalid-output', 'transformed function does not compile: %s' % e)], 'error'
  if swap:
    # canary: swap two temporaries' assignments
    lines = tsrc.split('\n')
    idxs = [i for i, l in enumerate(lines) if l.strip().startswith('tmp_')]
    if len(idxs) >= 2:
      lines[idxs[0]], lines[idxs[1]] = lines[idxs[1]], lines[idxs[0]]
      code_t = compile('\n'.join(lines), '<c18t>', 'exec')
  # temporaries distinct
  tmps = [n.targets[0].id for n in ast.walk(ast.parse(tsrc)) if isinstance(n, ast.Assign) and isinstance(n.targets[0], ast.Name)
          and n.targets[0].id.startswith('tmp_')]
  if len(tmps) != len(set(tmps)):
    viol.append(('temporaries-clash', 'temporaries are not pairwise distinct: %r' % tmps))
  bad = is_anf_ok(ast.parse(tsrc), cfg)
  if bad:
    viol.append(('not-anf', 'output is not in A-normal form under the default configuration: %s' % bad[0]))
  for bits in (0b00000000, 0b11111111, 0b01010101, 0b10101010, 0b00110011):
    ro, lo = run(code_o, bits)
    rt, lt = run(code_t, bits)
    # how often the truth of a value is asked is not an effect of the program text (naming `a and b` and then testing
    # the name asks once more): truth queries steer control flow but are not compared
    lo = [e for e in lo if e[0] != 'bool']
    lt = [e for e in lt if e[0] != 'bool']
    if lo != lt and not any(v[0] == 'order' for v in viol):
      viol.append(('order', 'effects differ with truth pattern %s: %s' % (bin(bits), first_inversion(lo, lt))))
    if ro != rt and not any(v[0] == 'value' for v in viol):
      # identities are structural, so the results are comparable even when the order of the effects differs
      viol.append(('value', 'result differs with truth pattern %s: original %r, transformed %r' % (bin(bits), ro, rt)))
  return src + '\n# ---\n' + tsrc, viol, status


def order_signature(item, msg):
  """Known evaluation-order defects are bucketed by the shape that triggers them."""
  sname, desc, cfg = item
  return 'order|stmt=%s|%s|cfg=%s' % (sname, '/'.join(str(d) for d in desc), cfg)


def check(item):
  if item[0] == 'seq':
    src, viol, first = check_seq(item)
    out = [util.V('%s|stmt=%s|%s|%s>%s' % (k, item[1], item[2][0], item[3], item[4]), '%s: %s' % (k, m), item, source=src) for k, m in viol]
    return {'viol': out, 'n': {'evaluations': 3, 'transformation_sequences': 1}, 'outcome': repr(item) + first, 'nontrivial': repr(item)}
  src, viol, status = check_item(item)
  out = []
  for k, m in viol:
    sig = order_signature(item, m) if k in ('order', 'value') else '%s|stmt=%s|%s|cfg=%s' % (k, item[0], '/'.join(str(d) for d in item[1]), item[2])
    cls = known_class(item, k, m)
    if cls:
      sig = cls
    out.append(util.V(sig, '%s: %s\n%s' % (k, m, src), item, source=src))
  return {'viol': out, 'n': {'evaluations': 5 if status == 'accepted' else 1, 'programs': 1, 'accepted': int(status == 'accepted'),
                             'rejected_with_ValueError': int(status == 'rejected')},
          'outcome': src + status, 'nontrivial': repr(item) if status == 'accepted' else None,
          'sample': {'item': repr(item), 'status': status, 'source': src[:600]}}


def known_class(item, kind, msg):
  """Root-cause classes of the evaluation-order defect recorded in known_findings.json (post-order hoisting: everything a
  nested operand needs is hoisted while its parent's earlier operands are still in place).  Shapes containing a lazy
  form are never in a known class: the unchanged transformer rejects them whenever something would be hoisted."""
  sname, desc, cfg = item
  if kind != 'order':
    return None
  # (a lazy form with trivial operands only is accepted as it is and behaves like a name for its siblings)
  if contains_lazy(spec_of(desc)) and any(FORM_BY_NAME[d][3] and d not in ('and_trivial', 'ifexp_trivial') for d in desc if isinstance(d, str)):
    return None
  if cfg not in ('default',):
    return 'order|partial-or-custom-configuration-hoists-a-later-operand-over-an-earlier-one-left-in-place'
  if sname in ('assign_attr', 'assign_sub', 'aug_attr', 'aug_sub', 'del_sub', 'del_attr', 'with'):
    return 'order|operands-of-a-store-delete-or-with-target-are-hoisted-out-of-statement-order'
  flat = [d for d in desc if isinstance(d, str)]
  if any(f in ('liststar', 'tuplestar', 'dictstar') for f in flat) and ("original ('iter'" in msg or "original ('getitem'" in msg):
    return 'order|unpacking-of-a-starred-display-element-is-delayed-past-the-evaluation-of-later-elements'
  if flat and flat[0] in ('dict', 'dictstar') and len(desc) == 1:    # a ** operand sits in the values list
    return 'order|dict-display-all-keys-hoisted-before-the-values'
  if len(desc) >= 3 or 'callkwstar' in flat:     # callkwstar nests a call (kwd(...)) by construction
    return 'order|operands-of-a-nested-later-operand-are-hoisted-before-an-earlier-sibling'
  return None


def exhaustive(tier, n):
  return True


def _canary():
  # swapping the first two temporaries of a flat expression (which the transformer handles correctly) must be reported
  ok = not check_item(('assign', ('call2',), 'default'))[1]
  v = check_item(('assign', ('call2',), 'default'), swap=True)[1]
  return ok and any(k[0] in ('order', 'value') for k in v)


CANARIES = [('order_oracle_is_live', _canary)]
