"""C09 - converted functions keep the original calling interface and environment.

Complete enumeration of signature shapes x default kinds, closure shapes and
entity kinds; for each, all call bindings (every parameter passed positionally,
by keyword or omitted)."""
import inspect
import itertools
import linecache
import sys
import types

from mc import util

ID = 'C09'
LEVEL = 'exploration'
RULE = ('signatures = {0,1 positional-only} x {0..2 positional} x {*args} x {0..2 keyword-only} x {**kw} x every legal assignment of '
        '{no default, immutable default, mutable default}; closure shapes = {none, one used, two with one unused, cell empty at '
        'conversion, shared with a rebinding sibling, nonlocal-rebinding}; entities = {function, lambda, bound method, nested '
        'function, functions created in a loop sharing one code object, decorated function}; per case all call bindings '
        '(positional / keyword / omitted per parameter); distinct_nontrivial = distinct cases')
ASSUMPTIONS = ['generated functions may close over additional cells (the injected operator module); every free variable of the '
               'original that the generated code still has must be the same cell object']

_S = {'tier': 'quick'}


def setup(tier, seed):
  _S['tier'] = tier


def sig_shapes():
  for npo in (0, 1):
    for npos in (0, 1, 2):
      for va in (0, 1):
        for nkw in (0, 1, 2):
          for kw in (0, 1):
            npp = npo + npos
            for ndef in range(0, npp + 1):
              for dk in itertools.product('im', repeat=ndef):
                for kwd in itertools.product('nim', repeat=nkw):
                  yield (npo, npos, va, nkw, kw, ''.join(dk), ''.join(kwd))


CLOSURES = ('none', 'one', 'two_unused', 'empty_cell', 'sibling', 'nonlocal')
ENTITIES = ('function', 'lambda', 'method', 'method_falsy', 'nested', 'loop', 'decorated', 'wrapped')


def items(tier, seed):
  for s in sig_shapes():
    yield ('sig', s, 'none', 'function')
  # closure shapes and entity kinds with a few representative signatures
  reps = [(0, 1, 0, 0, 0, '', ''), (0, 2, 1, 1, 1, 'm', 'i'), (1, 1, 0, 1, 0, 'i', 'n')]
  for c in CLOSURES:
    for e in ENTITIES:
      for s in reps:
        if e == 'lambda' and (s[2] or s[4]) and False:
          continue
        yield ('env', s, c, e)


def params_of(shape):
  npo, npos, va, nkw, kw, dk, kwd = shape
  names = []
  pos = ['p%d' % i for i in range(npo)] + ['a%d' % i for i in range(npos)]
  defaults = [None] * (len(pos) - len(dk)) + list(dk)
  parts = []
  for i, (n, d) in enumerate(zip(pos, defaults)):
    parts.append(n if d is None else '%s=%s' % (n, default_expr(d, n)))
    if npo and i == npo - 1:
      parts.append('/')
  if va:
    parts.append('*args')
  elif nkw:
    parts.append('*')
  kws = ['k%d' % i for i in range(nkw)]
  for n, d in zip(kws, kwd):
    parts.append(n if d == 'n' else '%s=%s' % (n, default_expr(d, n)))
  if kw:
    parts.append('**kw')
  allnames = pos + (['args'] if va else []) + kws + (['kw'] if kw else [])
  return ', '.join(parts), allnames, pos, defaults, kws, list(kwd)


def default_expr(kind, name):
  return "cnt('%s', %s)" % (name, "('imm', 1)" if kind == 'i' else "['mut']")


def build_source(item, pid=0):
  _, shape, clos, ent = item
  sig, allnames, pos, defaults, kws, kwd = params_of(shape)
  ret = '(%s)' % ''.join(n + ', ' for n in allnames)
  free = {'none': [], 'one': ['v1'], 'two_unused': ['v1', 'v2'], 'empty_cell': ['v1'], 'sibling': ['v1'], 'nonlocal': ['v1']}[clos]
  used = {'none': [], 'one': ['v1'], 'two_unused': ['v1'], 'empty_cell': ['v1'], 'sibling': ['v1'], 'nonlocal': ['v1']}[clos]
  # the unique id keeps code objects of different cases from comparing equal (the conversion cache keys on code objects by value)
  body_ret = '(%s, %s G, %d)' % (ret, ''.join(v + ', ' for v in used), pid)
  L = []
  ind = ''
  if clos != 'none' or ent in ('nested', 'loop'):
    L.append('def make(seed):')
    ind = '    '
    for v in free:
      if clos != 'empty_cell':
        L.append(ind + '%s = seed * 10 + %d' % (v, len(v)))
  if ent == 'lambda':
    if clos == 'two_unused':
      L.append(ind + 'keep = lambda: v2')
    L.append(ind + 'f = lambda %s: %s' % (sig, body_ret))
  elif ent in ('method', 'method_falsy'):
    L.append(ind + 'class C(object):')
    if ent == 'method_falsy':
      L.append(ind + '    def __len__(self):')
      L.append(ind + '        return 0')
    L.append(ind + '    def f(self%s):' % (', ' + sig if sig else ''))
    if clos == 'nonlocal':
      L.append(ind + '        nonlocal v1')
      L.append(ind + '        v1 = v1 + 1')
    L.append(ind + '        if t(1):')
    L.append(ind + '            pass')
    L.append(ind + '        return (self.tag, %s)' % body_ret)
    L.append(ind + 'obj = C()')
    L.append(ind + 'obj.tag = 77')
    if clos == 'two_unused':
      L.append(ind + 'keep = lambda: v2')
    L.append(ind + 'f = obj.f')
  else:
    if ent == 'decorated':
      L.append(ind + '@count_deco')
    if ent == 'wrapped':
      # carries __wrapped__ (and the name / docstring) of an unrelated function with another signature
      L.append(ind + '@functools.wraps(other_fn)')
    if ent == 'loop':
      L.append(ind + 'fs = []')
      L.append(ind + 'for j in (1, 2):')
      ind2 = ind + '    '
    else:
      ind2 = ind
    L.append(ind2 + 'def f(%s):' % sig)
    if clos == 'nonlocal':
      L.append(ind2 + '    nonlocal v1')
      L.append(ind2 + '    v1 = v1 + 1')
    L.append(ind2 + '    if t(1):')
    L.append(ind2 + '        pass')
    L.append(ind2 + '    return %s' % body_ret)
    if clos == 'two_unused':
      L.append(ind2 + 'keep = lambda: v2')
    if ent == 'loop':
      L.append(ind2 + 'fs.append(f)')
      L.append(ind + 'f = fs[0]')
      L.append(ind + 'f_other = fs[1]')
  if clos == 'sibling':
    L.append(ind + 'def setter(nv):')
    L.append(ind + '    nonlocal v1')
    L.append(ind + '    v1 = nv')
    L.append(ind + 'def getter():')
    L.append(ind + '    return v1')
  if ind:
    if clos == 'empty_cell':
      L.append(ind + 'cf = CONVERT(f)')
      L.append(ind + 'v1 = seed * 10 + 2')
    else:
      L.append(ind + 'cf = CONVERT(f)')
    extra = ''
    if clos == 'sibling':
      extra = ', setter, getter'
    elif ent == 'loop':
      extra = ', f_other, None'
    else:
      extra = ', None, None'
    L.append(ind + 'return f, cf' + extra)
  return '\n'.join(L) + '\n'


class Case(object):
  pass


def load(item, pid):
  import malt
  src = build_source(item, pid)
  fname = '<c09_%s>' % pid
  linecache.cache[fname] = (len(src), None, src.splitlines(True), fname)
  modname = 'c09prog_%s' % pid
  mod = types.ModuleType(modname)
  sys.modules[modname] = mod
  counts = {}

  def cnt(name, v):
    counts[name] = counts.get(name, 0) + 1
    return v

  def count_deco(fn):
    counts['deco'] = counts.get('deco', 0) + 1
    return fn
  g = mod.__dict__
  def other_fn(q, r=5):
    return ('other', q, r)
  import functools
  g.update({'other_fn': other_fn, 'functools': functools})
  g.update({'cnt': cnt, 'count_deco': count_deco, 't': malt.experimental.do_not_convert(lambda s: True), 'G': 'glob',
            'CONVERT': lambda f: malt.to_graph(f)})
  exec(compile(src, fname, 'exec'), g)  # pylint:disable=exec-used
  c = Case()
  c.src, c.fname, c.modname, c.g, c.counts = src, fname, modname, g, counts
  c.second = None
  if 'make' in g:
    c.f, c.cf, c.x1, c.x2 = g['make'](3)
    # same code objects, different cells: once holding equal values, once holding different values
    c.second = [g['make'](3), g['make'](4)]
  else:
    c.f = g['f']
    c.cf = malt.to_graph(c.f)
    c.x1 = c.x2 = None
  return c


def unload(c):
  linecache.cache.pop(c.fname, None)
  sys.modules.pop(c.modname, None)
  util.purge_generated()


def bindings(shape):
  """All call bindings: each parameter passed positionally (where legal), by keyword (where legal) or omitted."""
  npo, npos, va, nkw, kw, dk, kwd = shape
  pos = ['p%d' % i for i in range(npo)] + ['a%d' % i for i in range(npos)]
  out = []
  for npass in range(0, len(pos) + 1):                 # how many positional params are passed positionally
    for extra in ((), (91, 92)):                       # extra positionals (only meaningful with *args; else TypeError on both)
      rest = pos[npass:]
      rest_kw = [n for n in rest if not n.startswith('p')]
      for kwmask in itertools.product((0, 1), repeat=len(rest_kw)):
        for kmask in itertools.product((0, 1), repeat=nkw):
          for xkw in ((), ('zz',)):
            args = tuple(10 + i for i in range(npass)) + (extra if npass == len(pos) else ())
            kwargs = {}
            for n, m in zip(rest_kw, kwmask):
              if m:
                kwargs[n] = 'kw_' + n
            for i, m in enumerate(kmask):
              if m:
                kwargs['k%d' % i] = 'kw_k%d' % i
            for z in xkw:
              kwargs[z] = 'extra'
            out.append((args, kwargs))
  # de-duplicate
  seen = set()
  res = []
  for a, k in out:
    key = (a, tuple(sorted(k.items())))
    if key not in seen:
      seen.add(key)
      res.append((a, k))
  return res


def call(fn, args, kwargs):
  try:
    return ('ret', fn(*args, **kwargs))
  except TypeError as e:
    return ('TypeError',)
  except Exception as e:  # pylint:disable=broad-except
    return ('exc', type(e).__name__, str(e)[:80])


def check_case(item, pid, break_defaults=False):
  import malt
  viol = []
  _, shape, clos, ent = item
  c = load(item, pid)
  ncalls = 0
  try:
    f, cf = c.f, c.cf
    counts_after_def = dict(c.counts)
    fo = f.__func__ if inspect.ismethod(f) else f
    if break_defaults and cf.__defaults__:
      cf.__defaults__ = tuple(list(d) if isinstance(d, list) else d for d in cf.__defaults__)
    # --- interface
    so, sc = inspect.signature(fo, follow_wrapped=False), inspect.signature(cf, follow_wrapped=False)
    if [(p.name, p.kind) for p in so.parameters.values()] != [(p.name, p.kind) for p in sc.parameters.values()]:
      viol.append(('signature', 'original %s, converted %s' % (so, sc)))
    d0, d1 = fo.__defaults__ or (), cf.__defaults__ or ()
    if len(d0) != len(d1) or any(a is not b for a, b in zip(d0, d1)):
      viol.append(('defaults', 'positional defaults are not the same objects: %r vs %r' % (d0, d1)))
    k0, k1 = fo.__kwdefaults__ or {}, cf.__kwdefaults__ or {}
    if set(k0) != set(k1) or any(k0[n] is not k1[n] for n in k0):
      viol.append(('kwdefaults', 'keyword-only defaults differ: %r vs %r' % (k0, k1)))
    if cf.__globals__ is not fo.__globals__:
      viol.append(('globals', 'converted function resolves globals in a different dictionary'))
    # --- closure cells
    co, cc = fo.__code__, cf.__code__
    cells_o = dict(zip(co.co_freevars, fo.__closure__ or ()))
    cells_c = dict(zip(cc.co_freevars, cf.__closure__ or ()))
    for n, cell in cells_o.items():
      if n in cells_c and cells_c[n] is not cell:
        viol.append(('closure-cell', 'free variable %s is bound to a different cell in the converted function' % n))
    src_used = [n for n in cells_o if n == 'v1']
    for n in src_used:
      if n not in cells_c:
        viol.append(('closure-missing', 'free variable %s used by the function is not a free variable of the converted function' % n))
    # --- nothing re-evaluated / re-applied
    if c.counts != counts_after_def:
      viol.append(('re-evaluated', 'default expressions / decorators ran again during conversion: %r -> %r' % (counts_after_def, c.counts)))
    mult = 3 if c.second is not None else 1    # the factory ran three times
    if ent == 'decorated' and c.counts.get('deco', 0) != mult:
      viol.append(('decorator-reapplied', 'decorator applied %d times' % c.counts.get('deco', 0)))
    for name, nn in c.counts.items():
      if name != 'deco' and nn != (2 if ent == 'loop' else 1) * mult:
        viol.append(('default-evaluated', 'default expression of %s evaluated %d times' % (name, nn)))
    # --- all call bindings
    inst = (f.__self__,) if inspect.ismethod(f) else ()
    for args, kwargs in bindings(shape):
      ncalls += 1
      if clos == 'nonlocal':
        set_cell(fo, 'v1', 50)
      r0 = call(f, args, kwargs)
      if clos == 'nonlocal':
        after0 = get_cell(fo, 'v1')
        set_cell(fo, 'v1', 50)
      r1 = call(cf, inst + args, kwargs)
      if r0 != r1:
        viol.append(('call-result', 'call with args=%r kwargs=%r: original %r, converted %r' % (args, kwargs, r0, r1)))
        break
      if clos == 'nonlocal' and r0[0] == 'ret' and get_cell(fo, 'v1') != after0:
        viol.append(('nonlocal-rebinding', 'rebinding the closure variable in the converted function is not seen by the original'))
        break
      # mutable defaults: the result must carry the very same default objects
      if r0[0] == 'ret' and r1[0] == 'ret':
        for a, b in zip(flatten(r0[1]), flatten(r1[1])):
          if isinstance(a, list) and a is not b:
            viol.append(('default-identity', 'call with args=%r kwargs=%r returns a different mutable default object' % (args, kwargs)))
            break
    # --- rebinding through a sibling is seen by both
    if clos == 'sibling':
      c.x1(4242)
      base = ((10,) * len([p for p in inspect.signature(fo, follow_wrapped=False).parameters.values()
                           if p.default is p.empty and p.kind in (p.POSITIONAL_ONLY, p.POSITIONAL_OR_KEYWORD)]))
      kwreq = {p.name: 1 for p in inspect.signature(fo, follow_wrapped=False).parameters.values() if p.default is p.empty and p.kind == p.KEYWORD_ONLY}
      r0 = call(f, base, kwreq)
      r1 = call(cf, inst + base, kwreq)
      if r0 != r1 or (r0[0] == 'ret' and 4242 not in flatten(r0[1])):
        viol.append(('sibling-rebinding', 'after a sibling rebinds the closed-over variable: original %r, converted %r' % (r0, r1)))
    # --- the convert() wrapper route (converted_call) binds the same way
    wrapped = malt.convert(recursive=True)(f)
    for args, kwargs in bindings(shape)[:12]:
      ncalls += 1
      if clos == 'nonlocal':
        set_cell(fo, 'v1', 50)
      r0 = call(f, args, kwargs)
      if clos == 'nonlocal':
        set_cell(fo, 'v1', 50)
      r1 = call(wrapped, args, kwargs)
      if r0 != r1:
        viol.append(('wrapper-call-result', 'convert()(f) with args=%r kwargs=%r: original %r, converted %r' % (args, kwargs, r0, r1)))
        break
    # --- a second function made by the same factory has its own cells
    for nth, sec in enumerate(c.second or ()):
      f2, cf2 = sec[0], sec[1]
      if any(a is b for a, b in zip(fo.__closure__ or (), cf2.__closure__ or ())):
        viol.append(('second-closure-cell', 'another function of the factory is bound to cells of the first one'))
      fo2 = f2.__func__ if inspect.ismethod(f2) else f2
      inst2 = (f2.__self__,) if inspect.ismethod(f2) else ()
      cells2 = dict(zip(fo2.__code__.co_freevars, fo2.__closure__ or ()))
      cellsc2 = dict(zip(cf2.__code__.co_freevars, cf2.__closure__ or ()))
      for n, cell in cells2.items():
        if n in cellsc2 and cellsc2[n] is not cell:
          viol.append(('second-closure-cell', 'second function of the factory: free variable %s bound to a different cell' % n))
      base = ((10,) * len([p for p in inspect.signature(fo2, follow_wrapped=False).parameters.values()
                           if p.default is p.empty and p.kind in (p.POSITIONAL_ONLY, p.POSITIONAL_OR_KEYWORD)]))
      kwreq = {p.name: 1 for p in inspect.signature(fo2, follow_wrapped=False).parameters.values() if p.default is p.empty and p.kind == p.KEYWORD_ONLY}
      if clos == 'nonlocal':
        set_cell(fo2, 'v1', 60)
      r0 = call(f2, base, kwreq)
      if clos == 'nonlocal':
        set_cell(fo2, 'v1', 60)
      r1 = call(cf2, inst2 + base, kwreq)
      if r0 != r1:
        viol.append(('second-call-result', 'second function of the factory: original %r, converted %r' % (r0, r1)))
    if ent == 'loop' and c.x1 is not None:
      # the other function created by the same loop shares the code object but has its own defaults
      cf2 = malt.to_graph(c.x1)
      d2 = c.x1.__defaults__ or ()
      e2 = cf2.__defaults__ or ()
      if len(d2) != len(e2) or any(a is not b for a, b in zip(d2, e2)):
        viol.append(('loop-defaults', 'second function of the loop got defaults %r instead of its own %r' % (e2, d2)))
  finally:
    unload(c)
  return c.src, viol, ncalls


def flatten(v):
  if isinstance(v, tuple):
    for x in v:
      for y in flatten(x):
        yield y
  else:
    yield v


def set_cell(fn, name, value):
  fn.__closure__[fn.__code__.co_freevars.index(name)].cell_contents = value


def get_cell(fn, name):
  return fn.__closure__[fn.__code__.co_freevars.index(name)].cell_contents


def stable_id(item):
  import hashlib
  return int(hashlib.sha1(repr(item).encode()).hexdigest()[:6], 16) + 1000


def check(item):
  try:
    compile(build_source(item), '<gen>', 'exec')
  except SyntaxError:
    return {'n': {'invalid_programs_skipped': 1}}
  try:
    src, viol, ncalls = check_case(item, stable_id(item))
  except Exception as e:  # pylint:disable=broad-except
    import traceback
    tb = traceback.extract_tb(e.__traceback__)
    if tb and '/malt/' in tb[-1].filename or type(e).__name__ in ('ConversionError',):
      src, viol, ncalls = build_source(item), [('convert-error', '%s: %s' % (type(e).__name__, str(e)[:200]))], 0
    else:
      raise
  out = []
  for kind, msg in viol:
    sig = '%s|shape=%s|closure=%s|entity=%s' % (kind, '.'.join(str(x) for x in item[1]), item[2], item[3])
    out.append(util.V(sig, '%s: %s\nprogram:\n%s' % (kind, msg, src), item, source=src))
  return {'viol': out, 'n': {'evaluations': max(1, ncalls), 'cases': 1, 'call_bindings': ncalls},
          'outcome': src, 'nontrivial': src, 'sample': {'source': src, 'call_bindings': ncalls}}


def exhaustive(tier, n):
  return True


def _canary():
  v = check_case(('sig', (0, 1, 0, 0, 0, 'm', ''), 'none', 'function'), 4244, break_defaults=True)[1]
  return any(k[0] in ('defaults', 'default-identity') for k in v)


CANARIES = [('identity_oracle_fires_when_a_mutable_default_is_copied', _canary)]
