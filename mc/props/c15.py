"""C15 - source recovery returns exactly the code of the function being converted.

Complete product of layout features; every layout is written to a module file
in the scratch directory and imported, so that the interpreter compiles it.
Oracle: the node of ast.parse(module source) that defines the function object
(by name / unique constant)."""
import ast
import importlib.util
import itertools
import os
import sys
import tempfile

from mc import util
from mc.props import c17

ID = 'C15'
LEVEL = 'exploration'
RULE = ('functions = indentation {4 spaces, 2 spaces, tab} x position {module, class, function, inside for / with / try at module '
        'level, class in function, function in method in class} x decorators {0, 1, 2, multi-line call} x signature {one line, '
        'multi-line} x every subset of size <= 2 (thorough 3) of 11 body features (comment, comment ending in backslash, backslash '
        'continuation, under-indented triple-quoted string, raw string with backslash-newline, bytes, f-string, string with lines '
        'ending in backslash, blank lines with stray whitespace, semicolons, string with form feed / NEL / U+2028); lambdas = one '
        'per line, several per line with same / different signatures, semicolon-separated, nested, spanning lines, default '
        'argument, call argument; plus functools.wraps wrappers; distinct_nontrivial = distinct layouts')
ASSUMPTIONS = ['structural equality ignores position attributes', 'for lambdas an UnsupportedLanguageElementError is acceptable']

INDENTS = {'sp4': '    ', 'sp2': '  ', 'tab': '\t'}
POSITIONS = ('module', 'class', 'function', 'for', 'with', 'try', 'class_in_function', 'function_in_method')
DECOS = ('none', 'one', 'two', 'multiline')
SIGS = ('oneline', 'multiline')
FEATURES = ('comment', 'comment_bs', 'continuation', 'triple_under', 'raw_bs_nl', 'bytes', 'fstring', 'str_bs_lines', 'blank_ws',
            'semicolon', 'exotic')
LAMBDAS = ('single', 'two_same_sig', 'two_diff_sig', 'semicolon_diff', 'semicolon_same', 'nested_outer', 'nested_inner', 'spanning',
           'default_arg', 'call_arg', 'in_function', 'wraps_wrapper', 'wraps_method',
           # lambdas whose __name__ was changed (functools.wraps of a named function, direct assignment)
           'renamed', 'renamed_wraps', 'renamed_default_arg')
REDEFS = ('same_size_same_mtime', 'same_size_newer', 'longer', 'shorter', 'moved_down')
HANDOVER = ('nested_def_defaults', 'nested_lambda_defaults', 'nested_kwonly_defaults', 'own_defaults_only', 'two_levels',
            # two lambdas starting on one line, converted one after the other by the same transpiler
            'two_lambdas_one_line', 'two_lambdas_one_line_reversed',
            # a wrapper without retrievable source (built by exec) that carries __wrapped__: an error, never the wrapped function
            'no_source_wrapper')
_S = {'tier': 'quick'}


def setup(tier, seed):
  _S['tier'] = tier
  _S['dir'] = tempfile.mkdtemp(prefix='c15mods_')


def items(tier, seed):
  k = 2 if tier == 'quick' else 3
  for ind in INDENTS:
    for pos in POSITIONS:
      for deco in DECOS:
        for sig in SIGS:
          for n in range(0, k + 1):
            for feats in itertools.combinations(FEATURES, n):
              yield ('fn', ind, pos, deco, sig, feats)
  for ind in INDENTS:
    for lam in LAMBDAS:
      yield ('lam', ind, lam)
  # the file is rewritten and the module re-executed between two recoveries (the second must see the new definition)
  for ind in INDENTS:
    for variant in REDEFS:
      for kind in ('def', 'lambda'):
        yield ('redef', ind, variant, kind)
  # the tree a transpiler receives (GenericTranspiler hand-over): the recovered tree with the defaults of the converted
  # function itself blanked, nothing else touched
  for ind in INDENTS:
    for shape in HANDOVER:
      yield ('handover', ind, shape)


def feature_lines(f, I, uid):
  if f == 'comment':
    return ['# a plain comment %d' % uid]
  if f == 'comment_bs':
    return ['# comment ending in a backslash %d \\' % uid, 'cb = %d' % (uid + 1)]
  if f == 'continuation':
    return ['ct = %d + \\' % uid, I + I + '2']
  if f == 'triple_under':
    return ['tu = """first %d' % uid, '@@DEDENT@@under-indented line', I + 'deeper line', '@@DEDENT@@"""']
  if f == 'raw_bs_nl':
    return ['rb = r"""raw %d \\' % uid, '@@DEDENT@@continues"""']
  if f == 'bytes':
    return ["by = b'\\x00ab%d'" % uid]
  if f == 'fstring':
    return ['fs = f"{a!r:>{4}} {%d}"' % uid]
  if f == 'str_bs_lines':
    return ['sb = "abc %d \\' % uid, '@@DEDENT@@def"']
  if f == 'blank_ws':
    return ['bw = %d' % uid, '@@RAW@@   ', '@@RAW@@\t', 'bw2 = 2']
  if f == 'semicolon':
    return ['s1 = %d; s2 = 2' % uid]
  if f == 'exotic':
    return ['ex = """ff\x0cfs\x1cnel\x85ls end %d"""' % uid]
  raise ValueError(f)


def fn_source(item, uid):
  _, indk, pos, deco, sig, feats = item
  I = INDENTS[indk]
  L = ['import functools', 'class CM(object):', I + 'def __enter__(self):', I + I + 'return self', I + 'def __exit__(self, *a):',
       I + I + 'return False', 'def ident(f):', I + 'return f', 'def deco_args(*a):', I + 'return ident', '']
  depth = {'module': 0, 'class': 1, 'function': 1, 'for': 1, 'with': 1, 'try': 1, 'class_in_function': 2, 'function_in_method': 3}[pos]
  if pos == 'class':
    L.append('class K(object):')
  elif pos == 'function':
    L.append('def outer():')
  elif pos == 'for':
    L.append('for _i in (1,):')
  elif pos == 'with':
    L.append('with CM():')
  elif pos == 'try':
    L.append('try:')
  elif pos == 'class_in_function':
    L.append('def outer():')
    L.append(I + 'class K(object):')
  elif pos == 'function_in_method':
    L.append('class K(object):')
    L.append(I + 'def meth(self):')
    L.append(I + I + 'if True:')
  P = I * depth
  if deco == 'one':
    L.append(P + '@ident')
  elif deco == 'two':
    L.append(P + '@ident')
    L.append(P + '@deco_args(1)')
  elif deco == 'multiline':
    L.append(P + '@deco_args(')
    L.append(P + I + '1,')
    L.append(P + ' 2')
    L.append(P + ')')
  selfp = 'self, ' if pos in ('class', 'class_in_function') else ''
  if sig == 'oneline':
    L.append(P + 'def f(%sa, b=2):' % selfp)
  else:
    L.append(P + 'def f(%sa,' % selfp)
    L.append(P + '      b=2')
    L.append(P + '     ):')
  B = P + I
  for k, f in enumerate(feats):
    for line in feature_lines(f, I, uid + 10 * (k + 1)):
      if line.startswith('@@DEDENT@@'):
        L.append(line[len('@@DEDENT@@'):])        # column 0: under-indented continuation of a string
      elif line.startswith('@@RAW@@'):
        L.append(line[len('@@RAW@@'):])
      else:
        L.append(B + line)
  L.append(B + 'return (%d, a)' % uid)
  # make the function reachable as module attribute TARGET
  if pos in ('class',):
    L.append('TARGET = K.f')
  elif pos == 'function':
    L.append(I + 'return f')
    L.append('TARGET = outer()')
  elif pos in ('for', 'with', 'module'):
    L.append('TARGET = f')
  elif pos == 'try':
    L.append('except ImportError:')
    L.append(I + 'pass')
    L.append('TARGET = f')
  elif pos == 'class_in_function':
    L.append(I + 'return K')
    L.append('TARGET = outer().f')
  elif pos == 'function_in_method':
    L.append(I + I + 'return f')
    L.append('TARGET = K().meth()')
  return '\n'.join(L) + '\n'


def lam_source(item, uid):
  _, indk, kind = item
  I = INDENTS[indk]
  L = ['import functools', '']
  U1, U2 = uid, uid + 1
  exp = U1
  if kind == 'single':
    L.append('TARGET = lambda a: a + %d' % U1)
  elif kind == 'two_same_sig':
    L.append('TARGET, OTHER = (lambda a: a + %d), (lambda a: a + %d)' % (U1, U2))
  elif kind == 'two_diff_sig':
    L.append('TARGET, OTHER = (lambda a: a + %d), (lambda a, b=1: a + %d)' % (U1, U2))
  elif kind == 'semicolon_diff':
    L.append('TARGET = lambda x: x + %d; OTHER = lambda y: y * %d' % (U1, U2))
  elif kind == 'semicolon_same':
    L.append('TARGET = lambda x: x + %d; OTHER = lambda x: x * %d' % (U1, U2))
  elif kind == 'nested_outer':
    L.append('TARGET = lambda a: (lambda b: a + b + %d, %d)' % (U2, U1))
  elif kind == 'nested_inner':
    L.append('OUTER = lambda a: (lambda b: a + b + %d)' % U1)
    L.append('TARGET = OUTER(1)')
  elif kind == 'spanning':
    L.append('TARGET = (lambda a:')
    L.append(I + I + 'a +')
    L.append(I + '%d)' % U1)
  elif kind == 'default_arg':
    L.append('def h(k=lambda a: a + %d):' % U1)
    L.append(I + 'return k')
    L.append('TARGET = h()')
  elif kind == 'call_arg':
    L.append('def idn(*a, **k):')
    L.append(I + 'return a[0]')
    L.append('TARGET = idn(')
    L.append(I + 'lambda a: a + %d,' % U1)
    L.append(I + 'key=lambda z: z * %d)' % U2)
  elif kind == 'in_function':
    L.append('def outer():')
    L.append(I + 'g = lambda q: q - %d' % U2)
    L.append(I + 'return lambda a: a + %d' % U1)
    L.append('TARGET = outer()')
  elif kind == 'renamed':
    L.append('TARGET = lambda a: a + %d' % U1)
    L.append("TARGET.__name__ = 'renamed'")
  elif kind == 'renamed_wraps':
    L.append('def named(a):')
    L.append(I + 'return a - %d' % U2)
    L.append('TARGET = functools.wraps(named)(lambda a: a + %d)' % U1)
  elif kind == 'renamed_default_arg':
    L.append('def named(a):')
    L.append(I + 'return a - %d' % U2)
    L.append('def h(k=functools.wraps(named)(lambda a: a + %d)):' % U1)
    L.append(I + 'return k')
    L.append('TARGET = h()')
  elif kind == 'wraps_wrapper':
    L.append('def deco(fn):')
    L.append(I + '@functools.wraps(fn)')
    L.append(I + 'def wrapper(*a, **k):')
    L.append(I + I + 'return fn(*a, **k) + %d' % U1)
    L.append(I + 'return wrapper')
    L.append('@deco')
    L.append('def inner(a):')
    L.append(I + 'return a + %d' % U2)
    L.append('TARGET = inner')
  elif kind == 'wraps_method':
    L.append('def deco(fn):')
    L.append(I + 'def wrapper(self, a):')
    L.append(I + I + 'return fn(self, a) + %d' % U1)
    L.append(I + 'wrapper.__wrapped__ = fn')
    L.append(I + 'return wrapper')
    L.append('class K(object):')
    L.append(I + '@deco')
    L.append(I + 'def inner(self, a):')
    L.append(I + I + 'return a + %d' % U2)
    L.append('TARGET = K.inner')
  return '\n'.join(L) + '\n', exp


def load_module(src, name):
  path = os.path.join(_S['dir'], name + '.py')
  with open(path, 'w', encoding='utf-8') as f:
    f.write(src)
  spec = importlib.util.spec_from_file_location(name, path)
  mod = importlib.util.module_from_spec(spec)
  sys.modules[name] = mod
  spec.loader.exec_module(mod)
  return mod, path


def unload(name, path):
  sys.modules.pop(name, None)
  try:
    os.remove(path)
  except OSError:
    pass


def has_const(node, value):
  return any(isinstance(n, ast.Constant) and n.value == value and type(n.value) is int for n in ast.walk(node))


def check_item(item, uid, corrupt=False):
  from malt.pyct import parser, errors
  viol = []
  name = 'c15mod_%d' % uid
  if item[0] == 'fn':
    src = fn_source(item, uid)
    exp_const = uid
  else:
    src, exp_const = lam_source(item, uid)
  mod, path = load_module(src, name)
  try:
    target = mod.TARGET
    tree = ast.parse(src)
    is_lam = getattr(getattr(target, '__code__', None), 'co_name', '') == '<lambda>'
    if is_lam:
      cands = [n for n in ast.walk(tree) if isinstance(n, ast.Lambda) and has_const(n, exp_const)]
      # the innermost lambda carrying the constant, unless the target is the outer one of a nest
      if item[2] == 'nested_outer':
        want = [n for n in cands if any(isinstance(x, ast.Lambda) and x is not n for x in ast.walk(n))][0]
      else:
        want = [n for n in cands if not any(isinstance(x, ast.Lambda) and x is not n and has_const(x, exp_const) for x in ast.walk(n))][0]
    else:
      fname = target.__code__.co_name
      cands = [n for n in ast.walk(tree) if isinstance(n, ast.FunctionDef) and n.name == fname and has_const(n, exp_const)]
      want = cands[0]
    try:
      got, got_src = parser.parse_entity(target, ())
      if corrupt:
        got = ast.parse('def f(a, b=2):\n    return (0, a)').body[0]
    except errors.UnsupportedLanguageElementError as e:
      if is_lam:
        return src, [], 'unsupported'
      return src, [('unsupported', 'parse_entity raised UnsupportedLanguageElementError: %s' % str(e)[:120])], 'error'
    except Exception as e:  # pylint:disable=broad-except
      return src, [('parse-error', 'parse_entity raised %s: %s' % (type(e).__name__, str(e).strip().split('\n')[0][:160]))], 'error'
    d = c17.struct_diff(want, got)
    if d:
      kind = 'different-lambda' if is_lam and not has_const(got, exp_const) else 'tree-differs'
      viol.append((kind, 'recovered tree differs from the compiled definition: %s' % d))
  finally:
    unload(name, path)
  return src, viol, 'ok'


def redef_sources(item, uid):
  _, ind, variant, kind = item
  I = INDENTS[ind]
  a, b = uid, uid + 1          # same number of digits (uid is a multiple of 100)
  if kind == 'def':
    tmpl = 'def target(x):\n' + I + 'y = x + %d\n' + I + 'return y * 2\n\n\nTARGET = target\n'
  else:
    tmpl = 'TARGET = lambda x: (x + %d) * 2\n'
  first = tmpl % a
  second = tmpl % b
  if variant == 'longer':
    second = second.replace('x + ', 'x   +   ')
  elif variant == 'shorter':
    first = first.replace('x + ', 'x   +   ')
  elif variant == 'moved_down':
    second = '# a new first line\n\n' + second
  return first, second, a, b


def check_redef(item, uid):
  """Recover the definition, rewrite the module file, execute it again, recover again."""
  from malt.pyct import parser, errors
  import time
  name = 'c15redef_%d' % uid
  first, second, a, b = redef_sources(item, uid)
  variant = item[2]
  mod, path = load_module(first, name)
  viol = []
  try:
    st = os.stat(path)
    try:
      got1, _ = parser.parse_entity(mod.TARGET, ())
    except errors.UnsupportedLanguageElementError:
      return first + second, [], 'unsupported'
    if not has_const(got1, a):
      viol.append(('tree-differs', 'first recovery does not contain the constant %d of the definition' % a))
    with open(path, 'w', encoding='utf-8') as f:
      f.write(second)
    if variant == 'same_size_same_mtime':
      os.utime(path, ns=(st.st_atime_ns, st.st_mtime_ns))
    elif variant == 'same_size_newer':
      os.utime(path, ns=(st.st_atime_ns, st.st_mtime_ns + 5 * 10 ** 9))
    code = compile(second, path, 'exec')
    exec(code, mod.__dict__)  # pylint:disable=exec-used
    try:
      got2, _ = parser.parse_entity(mod.TARGET, ())
    except errors.UnsupportedLanguageElementError:
      return first + second, viol, 'unsupported'
    except Exception as e:  # pylint:disable=broad-except
      return first + second, viol + [('stale-source', 'second recovery raised %s: %s' % (type(e).__name__, str(e).split('\n')[0][:120]))], 'error'
    if not has_const(got2, b) or has_const(got2, a):
      viol.append(('stale-source', 'after the file was rewritten (%s) and executed again, the recovered tree still is the old definition' % variant))
    else:
      tree = ast.parse(second)
      want = [n for n in ast.walk(tree) if isinstance(n, (ast.FunctionDef, ast.Lambda)) and has_const(n, b)][0]
      d = c17.struct_diff(want, got2)
      if d:
        viol.append(('tree-differs', 'second recovery differs from the new definition: %s' % d))
  finally:
    unload(name, path)
  return first + second, viol, 'ok'


def handover_source(item, uid):
  _, ind, shape = item
  I = INDENTS[ind]
  L = ['def target(a, b=%d, *, c=3):' % uid]
  if shape == 'nested_def_defaults':
    L += [I + 'def inner(x, i=a, j=b):', I + I + 'return x + i + j', I + 'return inner(1)']
  elif shape == 'nested_lambda_defaults':
    L += [I + 'lam = lambda q=a, r=b: q + r', I + 'return lam()']
  elif shape == 'nested_kwonly_defaults':
    L += [I + 'def inner(x, *, scale=c, off=None):', I + I + 'return x * scale', I + 'lam = lambda *, k=a: k', I + 'return inner(1) + lam()']
  elif shape == 'own_defaults_only':
    L += [I + 'return a + b + c']
  else:
    L += [I + 'def inner(x, i=a):', I + I + 'def innermost(y, j=i, *, k=b):', I + I + I + 'return y + j + k', I + I + 'return innermost(x)',
          I + 'return inner(1)']
  return '\n'.join(L) + '\n\n\nTARGET = target\n'


def check_lambda_pair(item, uid):
  from malt.pyct import transpiler
  import inspect
  src = 'PAIR = (lambda x: x + %d, lambda y, z=1: (y * 2 + %d, z))\nTARGET = PAIR[0]\n' % (uid, uid)
  name = 'c15pair_%d' % uid
  mod, path = load_module(src, name)
  viol = []

  class Ident(transpiler.PyToPy):
    def get_caching_key(self, ctx):
      return 0

    def get_extra_locals(self):
      return {}

    def transform_ast(self, node, ctx):
      return node
  tr = Ident()
  order = (0, 1) if item[2] == 'two_lambdas_one_line' else (1, 0)
  try:
    for k in order:
      lam = mod.PAIR[k]
      try:
        new_f, _, _ = tr.transform(lam, None)
      except Exception as e:  # pylint:disable=broad-except
        if type(e).__name__ == 'UnsupportedLanguageElementError':
          continue
        viol.append(('handover-error', 'identity transpiler raised %s for lambda %d: %s' % (type(e).__name__, k, str(e).split('\n')[0][:120])))
        continue
      if str(inspect.signature(new_f)) != str(inspect.signature(lam)):
        viol.append(('different-lambda', 'lambda %d of the line converted after the other one: signature %s, the original has %s' % (
            k, inspect.signature(new_f), inspect.signature(lam))))
      elif new_f(5) != lam(5):
        viol.append(('different-lambda', 'lambda %d of the line converted after the other one returns %r, the original %r' % (k, new_f(5), lam(5))))
  finally:
    unload(name, path)
    util.purge_generated()
  return src, viol, 'ok'


def check_no_source_wrapper(item, uid):
  from malt.pyct import transpiler
  import functools
  src = 'def real(a):\n%sreturn a + %d\n\n\nTARGET = real\n' % (INDENTS[item[1]], uid)
  name = 'c15nosrc_%d' % uid
  mod, path = load_module(src, name)
  viol = []

  class Ident(transpiler.PyToPy):
    def get_caching_key(self, ctx):
      return 0

    def get_extra_locals(self):
      return {}

    def transform_ast(self, node, ctx):
      return node
  try:
    g = {'real': mod.real}
    exec('def wrapper(a):\n    return real(a) + 1000\n', g)  # pylint:disable=exec-used
    w = functools.update_wrapper(g['wrapper'], mod.real)
    try:
      new_f, _, _ = Ident().transform(w, None)
    except Exception:  # pylint:disable=broad-except
      return src, [], 'ok'      # no source: any explicit error is the right answer
    if new_f(5) != w(5):
      viol.append(('different-function', 'a wrapper without source carrying __wrapped__ was converted to something that returns %r, the wrapper returns %r' % (new_f(5), w(5))))
  finally:
    unload(name, path)
    util.purge_generated()
  return src, viol, 'ok'


def check_handover(item, uid):
  from malt.pyct import transpiler
  import copy
  if item[2].startswith('two_lambdas'):
    return check_lambda_pair(item, uid)
  if item[2] == 'no_source_wrapper':
    return check_no_source_wrapper(item, uid)
  src = handover_source(item, uid)
  name = 'c15hand_%d' % uid
  mod, path = load_module(src, name)
  viol = []
  seen = []

  class Capture(transpiler.PyToPy):
    def get_caching_key(self, ctx):
      return 0

    def get_extra_locals(self):
      return {}

    def transform_ast(self, node, ctx):
      seen.append(copy.deepcopy(node))
      return node
  try:
    try:
      new_f, _, _ = Capture().transform(mod.TARGET, None)
    except Exception as e:  # pylint:disable=broad-except
      return src, [('handover-error', 'identity transpiler raised %s: %s' % (type(e).__name__, str(e).split('\n')[0][:160]))], 'error'
    want = ast.parse(src).body[0]
    none = lambda: ast.Constant(value=None)
    want.args.defaults = [none() for _ in want.args.defaults]
    want.args.kw_defaults = [None if d is None else none() for d in want.args.kw_defaults]
    d = c17.struct_diff(want, seen[0]) if seen else 'transform_ast was not called'
    if d:
      viol.append(('handover-differs', 'tree handed to transform_ast differs from the definition (own defaults blanked): %s' % d))
    r0 = mod.TARGET(5)
    try:
      r1 = new_f(5)
    except Exception as e:  # pylint:disable=broad-except
      r1 = 'raises %s' % type(e).__name__
    if r0 != r1:
      viol.append(('handover-behaviour', 'identity conversion returns %r, the original %r' % (r1, r0)))
  finally:
    unload(name, path)
    util.purge_generated()
  return src, viol, 'ok'


def stable_id(item):
  import hashlib
  return int(hashlib.sha1(repr(item).encode()).hexdigest()[:6], 16) * 100 + 100000


def check(item):
  if item[0] in ('redef', 'handover'):
    src, viol, status = (check_redef if item[0] == 'redef' else check_handover)(item, stable_id(item))
    out = [util.V('%s|%s' % (kind, '|'.join(item)), '%s: %s\nmodule source:\n%s' % (kind, msg, src), item, source=src) for kind, msg in viol]
    return {'viol': out, 'n': {'evaluations': 2, 'layouts': 1, 'unsupported_lambda_errors': int(status == 'unsupported')},
            'outcome': src + status, 'nontrivial': src, 'sample': {'item': repr(item), 'source': src[-400:]}}
  src, viol, status = check_item(item, stable_id(item))
  out = []
  for kind, msg in viol:
    if item[0] == 'fn':
      feats = item[5]
      # known root causes are identified by the feature that triggers them (see known_findings.json)
      if 'comment_bs' in feats and kind in ('parse-error', 'tree-differs'):
        sig = 'comment-ending-in-backslash-swallows-the-next-line'
      elif 'raw_bs_nl' in feats and kind == 'tree-differs' and 'continues' in msg:
        sig = 'backslash-newline-inside-a-raw-string-is-removed'
      else:
        sig = '%s|%s|%s|%s|%s|%s' % (kind, item[1], item[2], item[3], item[4], '+'.join(feats))
    else:
      sig = '%s|lambda|%s|%s' % (kind, item[1], item[2])
    out.append(util.V(sig, '%s: %s\nmodule source:\n%s' % (kind, msg, src), item, source=src))
  return {'viol': out, 'n': {'evaluations': 1, 'layouts': 1, 'unsupported_lambda_errors': int(status == 'unsupported')},
          'outcome': src + status, 'nontrivial': src, 'sample': {'item': repr(item), 'source': src[-400:]}}


def exhaustive(tier, n):
  return True


def worker_done():
  import shutil
  shutil.rmtree(_S.get('dir', ''), ignore_errors=True)
  return None


def _canary():
  return bool(check_item(('fn', 'sp4', 'module', 'none', 'oneline', ('comment',)), 777000, corrupt=True)[1])


CANARIES = [('tree_oracle_fires_on_a_different_tree', _canary)]
