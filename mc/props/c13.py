"""C13 - call wrapper: transparent, policy-conforming, safe fallback.

Half 1 (decision table, enumerated completely): callable kinds x argument
shapes x options x context status; oracle = the direct call (result, target
invoked once) and an independently written table of the documented conversion
rules ("was it converted").
Half 2 (fault enumeration, E6): a fault-free conversion under sys.settrace
records every call boundary inside the conversion pipeline; one run per
recorded point injects an exception exactly there."""
import functools
import itertools
import linecache
import logging as pylogging
import math
import os
import sys
import threading
import types
import collections

from mc import util

ID = 'C13'
LEVEL = 'fault_enumeration'
RULE = ('decision table = 24 callable kinds x 5 argument shapes x 4 option values x 3 context statuses, all enumerated; call sequences '
        'of length 2 = every ordered pair of (kind, options) sharing the conversion and allow-list caches (second call must behave as '
        'it does alone); fault points '
        '= every call boundary of malt/{pyct,converters,core,impl,operators} recorded during a fault-free conversion of 3 targets '
        '(plain function, bound method, function with a nested def), deduplicated to (callee, caller line, occurrence <= 2): stage '
        'points x 12 exception types, fine points x {ValueError, UnsupportedLanguageElementError} (quick: every 8th fine point, '
        'offset VERIF_SEED mod 8; thorough: all) + strict mode; distinct_nontrivial = distinct table rows and fault points')
ASSUMPTIONS = ['"was it converted" is observed as: _convert_actual was entered for the target and returned', 'warnings are counted at ag_logging.warning']

SRC = '''
import collections
import functools

COUNTS = []


def passthrough(fn):
    @functools.wraps(fn)
    def inner(*a, **k):
        return fn(*a, **k)
    return inner


def localgen(a, b=2, *rest, **kw):
    COUNTS.append('localgen')

    def g():
        for j in (a, b):
            yield j
    return ('localgen', list(g()), rest, sorted(kw.items()))


def plain(a, b=2, *rest, **kw):
    COUNTS.append('plain')
    if a:
        a = a + 0
    return ('plain', a, b, rest, sorted(kw.items()))


lam = lambda a, b=2, *rest, **kw: (COUNTS.append('lam'), ('lam', a, b, rest, sorted(kw.items())))[1]


class K(object):
    def __init__(self, a=0, b=2, *rest, **kw):
        COUNTS.append('init')
        self.v = ('K', a, b, rest, sorted(kw.items()))

    def __eq__(self, o):
        return isinstance(o, K) and self.v == o.v

    def meth(self, a, b=2, *rest, **kw):
        COUNTS.append('meth')
        if a:
            a = a + 0
        return ('meth', a, b, rest, sorted(kw.items()))

    @classmethod
    def cmeth(cls, a, b=2, *rest, **kw):
        COUNTS.append('cmeth')
        return ('cmeth', cls.__name__, a, b, rest, sorted(kw.items()))

    @staticmethod
    def smeth(a, b=2, *rest, **kw):
        COUNTS.append('smeth')
        return ('smeth', a, b, rest, sorted(kw.items()))

    def __call__(self, a, b=2, *rest, **kw):
        COUNTS.append('call')
        if a:
            a = a + 0
        return ('call', a, b, rest, sorted(kw.items()))


class UL(collections.UserList):
    # overrides a method that the allow-listed base class (module collections) defines as well
    def count(self, a, b=2, *rest, **kw):
        COUNTS.append('ulcount')
        if a:
            a = a + 0
        return ('ulcount', a, b, rest, sorted(kw.items()))


class M(object):
    def __init__(self):
        self.__count_ = 5            # name-mangled (two leading underscores, ONE trailing underscore)

    def meth(self, a, b=2, *rest, **kw):
        COUNTS.append('mmeth')
        if a:
            a = a + 0
        return ('mmeth', self.__count_ + a, b, rest, sorted(kw.items()))


def gen(a, b=2, *rest, **kw):
    COUNTS.append('gen')
    yield ('gen', a, b, rest, sorted(kw.items()))


def nested(a, b=2, *rest, **kw):
    COUNTS.append('nested')

    def inner(z):
        if z:
            return z + 0
        return z
    return ('nested', inner(a), b, rest, sorted(kw.items()))
'''

KINDS = ('function', 'lambda', 'bound_method', 'unbound_method', 'classmethod', 'staticmethod', 'callable_object', 'class',
         'partial', 'nested_partial', 'builtin', 'builtin_kw', 'c_function', 'exec_defined', 'generator', 'lru_cache', 'namedtuple',
         'allowlisted_module', 'converted_artifact', 'do_not_convert',
         # a C-implemented bound method that merely has the *name* of a supported builtin; a function whose local generator
         # yields inside control flow (rejected by the feature check: runs as it is, with one warning); two wrappers made by
         # the same functools.wraps decorator (one code object): around an allow-listed function / around a user function
         'c_method_builtin_name', 'local_generator', 'wraps_allowlisted', 'wraps_user',
         # a method using a name-mangled attribute (rejected by the feature check like the local generator)
         'mangled_method',
         # user override of a method that an allow-listed base class also defines: user code like any other
         'override_of_allowlisted_base')
SHAPES = ('args', 'kwargs_none', 'kwargs_empty', 'kwargs', 'star')
OPTS = ((True, False, True), (False, False, False), (True, True, True), (False, True, True))   # (recursive, user_requested, icuc)
STATUSES = ('UNSPECIFIED', 'ENABLED', 'DISABLED')
CONVERTIBLE = ('function', 'lambda', 'bound_method', 'unbound_method', 'classmethod', 'staticmethod', 'callable_object', 'partial',
               'nested_partial', 'wraps_user', 'override_of_allowlisted_base')
NO_EXTRA_ARGS = ('builtin', 'builtin_kw', 'c_function', 'lru_cache', 'namedtuple', 'allowlisted_module', 'c_method_builtin_name',
                 'wraps_allowlisted')
_S = {'tier': 'quick'}


def setup(tier, seed):
  import malt
  from malt.impl import api
  _S['tier'] = tier
  _S['seed'] = seed
  fname = '<c13prog>'
  linecache.cache[fname] = (len(SRC), None, SRC.splitlines(True), fname)
  mod = types.ModuleType('c13prog')
  sys.modules['c13prog'] = mod
  exec(compile(SRC, fname, 'exec'), mod.__dict__)  # pylint:disable=exec-used
  _S['mod'] = mod
  g = {}
  exec("def execd(a, b=2, *rest, **kw):\n    COUNTS.append('execd')\n    return ('execd', a, b, rest, sorted(kw.items()))\n", {'COUNTS': mod.COUNTS}, g)  # pylint:disable=exec-used
  _S['execd'] = g['execd']
  _S['lru'] = functools.lru_cache(maxsize=None)(lambda a, b=2: ('lru', a, b))
  _S['nt'] = collections.namedtuple('NT', ['a', 'b'])
  _S['artifact'] = malt.to_graph(mod.plain)
  _S['dnc'] = malt.experimental.do_not_convert(mod.plain)
  _S['warnings'] = []
  from malt.utils import ag_logging
  orig_warn = ag_logging.warning

  def warn(msg, *args, **kw):
    _S['warnings'].append(msg % args if args else msg)
  ag_logging.warning = warn
  _S['converted'] = []
  orig_conv = api._convert_actual

  def conv(entity, ctx):
    _S['converted'].append(('enter', entity))
    r = orig_conv(entity, ctx)
    _S['converted'].append(('done', entity))
    return r
  api._convert_actual = conv
  _S['orig_convert_actual'] = orig_conv


def items(tier, seed):
  for k in KINDS:
    for sh in SHAPES:
      for o in range(len(OPTS)):
        for st in STATUSES:
          yield ('row', k, sh, o, st)
  for mname in module_names():
    for o in range(len(OPTS)):
      for st in STATUSES:
        yield ('modrow', mname, o, st)
  # every ordered pair of (kind, options) calls sharing the caches
  for st in (('UNSPECIFIED',) if tier == 'quick' else STATUSES):
    for sh in (('kwargs',) if tier == 'quick' else ('kwargs', 'args')):
      for k1 in KINDS:
        for o1 in range(len(OPTS)):
          for k2 in KINDS:
            for o2 in range(len(OPTS)):
              yield ('pair', k1, o1, k2, o2, st, sh)
  for k in KINDS:
    for o in range(len(OPTS)):
      for s1, s2 in (('DISABLED', 'UNSPECIFIED'), ('DISABLED', 'ENABLED'), ('ENABLED', 'DISABLED')):
        yield ('spair', k, o, s1, s2, 'kwargs')
  for target in ('function', 'bound_method', 'nested'):
    yield ('faults', target, 'stage')
    stride = 8 if tier == 'quick' else 1
    for part in range(16):
      yield ('faults', target, 'fine', part, stride)
    yield ('faults', target, 'strict')


RULE_PREFIXES = (('tensorflow.python.training.experimental', 'C'), ('malt', 'D'), ('collections', 'D'), ('copy', 'D'), ('cProfile', 'D'),
                 ('inspect', 'D'), ('ipdb', 'D'), ('linecache', 'D'), ('mock', 'D'), ('pathlib', 'D'), ('pdb', 'D'), ('posixpath', 'D'),
                 ('pstats', 'D'), ('re', 'D'), ('threading', 'D'), ('urllib', 'D'), ('matplotlib', 'D'), ('numpy', 'D'), ('pandas', 'D'),
                 ('tensorflow', 'D'), ('PIL', 'D'), ('absl.logging', 'D'), ('tensorflow_probability', 'D'),
                 ('tensorflow_datasets.core', 'D'), ('keras', 'D'))


def module_names():
  out = []
  for p, _ in RULE_PREFIXES:
    out += [p, p + '.sub_c13', p + 'x_c13', p + '_c13']
  out.append('userpkg_c13.mod')
  return out


def allowlisted_by_docs(name):
  """functions.md: a module is allow-listed if it is one of the listed packages or a submodule of one (first match wins)."""
  for p, action in RULE_PREFIXES:
    if name == p or name.startswith(p + '.'):
      return action == 'D'
  return False


MOD_SRC = """
def modfn(a, b=2):
    COUNTS.append('modfn')
    if a:
        a = a + 0
    return ('modfn', a, b)
"""


def check_modrow(item):
  from malt.core import ag_ctx, converter
  from malt.impl import api, conversion
  _, mname, oi, status = item
  fname = '<c13mod_%s>' % mname
  linecache.cache[fname] = (len(MOD_SRC), None, MOD_SRC.splitlines(True), fname)
  counts = _S['mod'].COUNTS
  saved = sys.modules.get(mname)
  m = types.ModuleType(mname)
  m.COUNTS = counts
  sys.modules[mname] = m
  viol = []
  try:
    exec(compile(MOD_SRC, fname, 'exec'), m.__dict__)  # pylint:disable=exec-used
    fn = m.modfn
    opt = OPTS[oi]
    options = converter.ConversionOptions(recursive=opt[0], user_requested=opt[1], internal_convert_user_code=opt[2], optional_features=None)
    api._TRANSPILER = api.PyToPy()
    conversion._ALLOWLIST_CACHE = type(conversion._ALLOWLIST_CACHE)()
    del counts[:]
    del _S['converted'][:]
    del _S['warnings'][:]
    with ag_ctx.ControlStatusCtx(getattr(ag_ctx.Status, status)):
      r = api.converted_call(fn, (1,), {'b': 3}, options=options)
    if r != ('modfn', 1, 3) or list(counts) != ['modfn']:
      viol.append(('result', 'function of module %s: wrapper gives %r with body runs %r' % (mname, r, list(counts))))
    was = any(k == 'done' for k, _ in _S['converted'])
    exp = status != 'DISABLED' and opt[2] and (opt[1] or not allowlisted_by_docs(mname))
    if mname in ('collections', 'pdb', 'copy', 'inspect', 're'):
      exp = False    # members of these loaded builtin modules are permanently run as they are (is_unsupported)
    if was != exp:
      viol.append(('policy', 'function of module %r: converted=%s, the documented allow-list rules say %s' % (mname, was, exp)))
  finally:
    if saved is not None:
      sys.modules[mname] = saved
    else:
      sys.modules.pop(mname, None)
    linecache.cache.pop(fname, None)
    util.purge_generated()
  return viol


def make_callable(kind):
  mod = _S['mod']
  obj = mod.K()
  del mod.COUNTS[:]
  if kind == 'function':
    return mod.plain, 'plain'
  if kind == 'lambda':
    return mod.lam, 'lam'
  if kind == 'bound_method':
    return obj.meth, 'meth'
  if kind == 'unbound_method':
    return functools.partial(mod.K.meth, obj) if False else (lambda *a, **k: None), None
  if kind == 'classmethod':
    return mod.K.cmeth, 'cmeth'
  if kind == 'staticmethod':
    return mod.K.smeth, 'smeth'
  if kind == 'callable_object':
    return obj, 'call'
  if kind == 'class':
    return mod.K, 'init'
  if kind == 'partial':
    return functools.partial(mod.plain, 1, z=9), 'plain'
  if kind == 'nested_partial':
    return functools.partial(functools.partial(mod.plain, 1, b=5, z=9), z=8, y=7), 'plain'
  if kind == 'builtin':
    return len, None
  if kind == 'builtin_kw':
    return sorted, None
  if kind == 'c_function':
    return math.hypot, None
  if kind == 'exec_defined':
    return _S['execd'], 'execd'
  if kind == 'generator':
    return mod.gen, None
  if kind == 'lru_cache':
    return _S['lru'], None
  if kind == 'namedtuple':
    return _S['nt'], None
  if kind == 'allowlisted_module':
    import copy
    return copy.copy, None
  if kind == 'converted_artifact':
    return _S['artifact'], 'plain'
  if kind == 'do_not_convert':
    return _S['dnc'], 'plain'
  if kind == 'c_method_builtin_name':
    import decimal
    return decimal.Context(prec=2).abs, None
  if kind == 'local_generator':
    return mod.localgen, 'localgen'
  if kind == 'mangled_method':
    return mod.M().meth, 'mmeth'
  if kind == 'override_of_allowlisted_base':
    return mod.UL([1]).count, 'ulcount'
  if kind == 'wraps_allowlisted':
    import copy
    return mod.passthrough(copy.copy), None
  if kind == 'wraps_user':
    return mod.passthrough(mod.plain), 'plain'
  raise ValueError(kind)


def call_args(kind, shape):
  """(args, kwargs) for the wrapper, adapted to what the callable accepts."""
  if kind == 'builtin':
    base, kw = ([3, 1, 2],), {}
  elif kind == 'builtin_kw':
    base, kw = ([3, 1, 2],), {'reverse': True}
  elif kind == 'c_function':
    base, kw = (3.0, 4.0), {}
  elif kind == 'lru_cache':
    base, kw = (1,), {'b': 3}
  elif kind == 'namedtuple':
    base, kw = (1,), {'b': 3}
  elif kind in ('allowlisted_module', 'wraps_allowlisted'):
    base, kw = ([1, 2],), {}
  elif kind == 'c_method_builtin_name':
    import decimal
    base, kw = (decimal.Decimal('-1.2345'),), {}
  elif kind in ('partial', 'nested_partial'):
    base, kw = (4,), {'b': 6, 'z': 1} if kind == 'partial' else {'z': 2, 'w': 3}
  else:
    base, kw = (1,), {'b': 3, 'q': 4}
  if shape == 'args':
    return base, None
  if shape == 'kwargs_none':
    return base + ((5,) if kind not in NO_EXTRA_ARGS else ()), None
  if shape == 'kwargs_empty':
    return base, {}
  if shape == 'kwargs':
    if kind in ('builtin', 'c_function', 'allowlisted_module', 'c_method_builtin_name', 'wraps_allowlisted'):
      return base, {}
    return base, dict(kw)
  if shape == 'star':
    star = (7, 8) if kind not in NO_EXTRA_ARGS else ()
    return tuple(base) + star, (dict(kw) if kind not in ('builtin', 'c_function', 'allowlisted_module', 'c_method_builtin_name',
                                                         'wraps_allowlisted') else None)
  raise ValueError(shape)


def norm(v):
  if isinstance(v, types.GeneratorType):
    return ('generator', list(v))
  return v


def direct(fn, args, kwargs):
  try:
    return ('ret', norm(fn(*args, **(kwargs or {}))))
  except Exception as e:  # pylint:disable=broad-except
    return ('exc', type(e).__name__)


def expected_converted(kind, opt, status):
  rec, ur, icuc = opt
  if status == 'DISABLED':
    return False
  if kind == 'wraps_allowlisted':
    # functools.wraps copies __module__ ('copy'): allow-listed by the module rule unless the conversion is user requested
    return bool(icuc and ur)
  if kind not in CONVERTIBLE:
    return False
  if not icuc:
    return False
  return True


def check_row(item, double_call=False, reset=True, remembered=False):
  from malt.core import ag_ctx, converter
  from malt.impl import api, conversion
  _, kind, shape, oi, status = item
  if kind == 'unbound_method':
    mod = _S['mod']
    obj = mod.K()
    fn, cname = mod.K.meth, 'meth'
    prefix = (obj,)
  else:
    fn, cname = make_callable(kind)
    prefix = ()
  args, kwargs = call_args(kind, shape)
  args = prefix + tuple(args)
  opt = OPTS[oi]
  options = converter.ConversionOptions(recursive=opt[0], user_requested=opt[1], internal_convert_user_code=opt[2], optional_features=None)
  if reset:
    api._TRANSPILER = api.PyToPy()
    conversion._ALLOWLIST_CACHE = type(conversion._ALLOWLIST_CACHE)()
  viol = []
  counts = _S['mod'].COUNTS
  del counts[:]
  want = direct(fn, args, kwargs)
  n_direct = list(counts)
  if kind in ('lru_cache',):
    fn.cache_clear()
  del counts[:]
  del _S['converted'][:]
  del _S['warnings'][:]
  st = getattr(ag_ctx.Status, status)
  before = ag_ctx.control_status_ctx()
  try:
    with ag_ctx.ControlStatusCtx(st):
      r = api.converted_call(fn, args, kwargs, options=options)
      if double_call:
        counts.append(cname)
    got = ('ret', norm(r))
  except Exception as e:  # pylint:disable=broad-except
    got = ('exc', type(e).__name__)
  if ag_ctx.control_status_ctx() is not before:
    viol.append(('status-leak', 'conversion status not restored after converted_call'))
  was = any(k == 'done' for k, _ in _S['converted'])
  first_counts = list(counts)
  if isinstance(fn, functools.partial):
    fresh, _ = make_callable(kind)
    state = lambda p: (p.args, dict(p.keywords), (p.func.args, dict(p.func.keywords)) if isinstance(p.func, functools.partial) else None)
    if state(fn) != state(fresh):
      viol.append(('callable-mutated', 'the partial object was modified by the wrapper: %r, a fresh one is %r' % (state(fn), state(fresh))))
    del counts[:]
    try:
      again = ('ret', norm(api.converted_call(fn, (4,), None, options=options)))
    except Exception as e:  # pylint:disable=broad-except
      again = ('exc', type(e).__name__)
    del counts[:]
    ref = direct(fresh, (4,), None)
    del counts[:]
    if again != ref:
      viol.append(('second-call', 'second call through the wrapper gives %r, a fresh partial called directly gives %r' % (again, ref)))
    counts.extend(first_counts)
  if got != want:
    viol.append(('result', 'converted_call gives %r, the direct call gives %r' % (got, want)))
  if list(counts) != n_direct:
    viol.append(('invocations', 'target body ran %r through the wrapper, %r directly' % (list(counts), n_direct)))
  exp = expected_converted(kind, opt, status)
  if was != exp:
    viol.append(('policy', 'converted=%s, the documented rules say %s' % (was, exp)))
  if kind in ('local_generator', 'mangled_method'):
    # the feature check rejects it: one warning per (function, options) when a conversion is attempted, remembered afterwards
    exp_w = 1 if (status != 'DISABLED' and opt[2] and not remembered) else 0
    if len(_S['warnings']) != exp_w:
      viol.append(('warning', '%d warnings, expected %d' % (len(_S['warnings']), exp_w)))
  elif _S['warnings'] and not (kind == 'generator' and opt[1]):
    viol.append(('warning', 'unexpected warning: %s' % _S['warnings'][0][:120]))
  return viol, (got, was)


def check_status_pair(item):
  """First call in a DISABLED context (runs unconverted: a decision about the CONTEXT, not about the callable), then the
  same kind of callable under the second status: must be decided as if nothing had happened."""
  _, k, o, s1, s2, shape = item
  check_row(('row', k, shape, o, s1))
  return check_row(('row', k, shape, o, s2), reset=False, remembered=(k in ('local_generator', 'mangled_method') and s1 != 'DISABLED'))


def check_pair(item):
  """Two calls through the wrapper without resetting the caches in between: whatever the first call left behind (conversion
  cache, allow-list cache, state of the callable), the second call must behave exactly as it does on its own."""
  _, k1, o1, k2, o2, status, shape = item
  check_row(('row', k1, shape, o1, status))
  viol, obs = check_row(('row', k2, shape, o2, status), reset=False, remembered=(k1 == k2 and o1 == o2))
  return viol, obs


# --- fault enumeration ---------------------------------------------------------

PIPE_DIRS = ('/malt/pyct/', '/malt/converters/', '/malt/core/', '/malt/impl/', '/malt/operators/')
STAGE_NAMES = ('parse_entity', 'resolve_entity', 'verify', 'build', 'resolve', 'transform', 'load_ast', 'load_source', 'create_source_map',
               'instantiate', 'initial_analysis', 'transform_function', 'transform_ast', 'create', 'getfutureimports', 'getnamespace')


def fault_target(name):
  mod = _S['mod']
  if name == 'function':
    return mod.plain, (1,), {'b': 3}, 'plain'
  if name == 'bound_method':
    return mod.K().meth, (1,), {'b': 3}, 'meth'
  return mod.nested, (1,), None, 'nested'


def exc_types():
  from malt.pyct import errors
  return [ValueError, KeyError, AttributeError, NameError, AssertionError, TypeError, NotImplementedError,
          errors.UnsupportedLanguageElementError, errors.InaccessibleSourceCodeError, OSError, RuntimeError, SyntaxError]


def record_points(target):
  """Fault-free conversion under settrace: ordered list of call events inside the pipeline."""
  from malt.core import converter
  from malt.impl import api, conversion
  fn, args, kwargs, cname = fault_target(target)
  api._TRANSPILER = api.PyToPy()
  conversion._ALLOWLIST_CACHE = type(conversion._ALLOWLIST_CACHE)()
  options = converter.ConversionOptions(recursive=True, user_requested=False, optional_features=None)
  events = []
  depth = [0]

  def tracer(frame, event, arg):
    if event != 'call':
      return None
    code = frame.f_code
    if code.co_name == 'conv' and 'c13' in code.co_filename:
      depth[0] += 1
      return ret_tracer
    if depth[0] and code.co_filename.rpartition('/malt/')[1] and any(d in code.co_filename for d in PIPE_DIRS):
      caller = frame.f_back
      cfile = caller.f_code.co_filename.split('/')[-1]
      # a call made from a weak-reference callback (WeakValueDictionary.remove -> QN.__hash__ ...) is not a step of the
      # pipeline: when it runs depends on when the referent dies, and the interpreter swallows whatever it raises
      # (a generator-expression frame is not a call boundary either: raising from the trace function when such a frame is
      # resumed does not reliably surface as an exception of the consuming expression)
      if cfile not in ('weakref.py', '_weakrefset.py') and code.co_name != '<genexpr>':
        events.append((code.co_filename.split('/malt/')[-1], code.co_name, cfile, caller.f_lineno))
    return None

  def ret_tracer(frame, event, arg):
    if event == 'return':
      depth[0] -= 1
    return ret_tracer
  sys.settrace(tracer)
  try:
    api.converted_call(fn, args, kwargs, options=options)
  finally:
    sys.settrace(None)
  return events


def select_points(events, mode, part=0, stride=1, seed=0):
  # a fault point is identified by (callee, caller line, occurrence number): stable even if the total order of
  # call events differs slightly between runs
  seen = {}
  fine = []
  stage = []
  for idx, ev in enumerate(events):
    k = ev
    seen[k] = seen.get(k, 0) + 1
    if seen[k] <= 2:
      fine.append((ev, seen[k]))
    if ev[1] in STAGE_NAMES and seen[k] <= 1:
      stage.append((ev, seen[k]))
  if mode == 'stage':
    return stage
  sel = [i for n, i in enumerate(fine) if n % stride == seed % stride]
  return [i for n, i in enumerate(sel) if n % 16 == part]


def run_fault(target, point, exc_type, strict=False, second_call=True):
  """One execution with an exception injected at the index-th recorded call boundary."""
  from malt.core import ag_ctx, converter
  from malt.impl import api, conversion
  fn, args, kwargs, cname = fault_target(target)
  api._TRANSPILER = api.PyToPy()
  conversion._ALLOWLIST_CACHE = type(conversion._ALLOWLIST_CACHE)()
  options = converter.ConversionOptions(recursive=True, user_requested=False, optional_features=None)
  counts = _S['mod'].COUNTS
  del counts[:]
  want = direct(fn, args, kwargs)
  n_direct = list(counts)
  del counts[:]
  del _S['warnings'][:]
  del _S['converted'][:]
  key, occ = point
  key = tuple(key)
  n = [0]
  depth = [0]
  fired = [False]

  def tracer(frame, event, arg):
    if event != 'call':
      return None
    code = frame.f_code
    if code.co_name == 'conv' and 'c13' in code.co_filename:
      depth[0] += 1
      return ret_tracer
    if depth[0] and not fired[0] and code.co_name == key[1] and code.co_filename.endswith(key[0]):
      caller = frame.f_back
      if caller.f_lineno == key[3] and caller.f_code.co_filename.endswith(key[2]):
        n[0] += 1
        if n[0] == occ:
          fired[0] = True
          raise exc_type('injected fault')
    return None

  def ret_tracer(frame, event, arg):
    if event in ('return',):
      depth[0] -= 1
    return ret_tracer
  before = ag_ctx.control_status_ctx()
  stack_depth = len(ag_ctx._control_ctx())
  if strict:
    os.environ['AUTOGRAPH_STRICT_CONVERSION'] = '1'
  sys.settrace(tracer)
  try:
    try:
      got = ('ret', norm(api.converted_call(fn, args, kwargs, options=options)))
    except BaseException as e:  # pylint:disable=broad-except
      got = ('exc', type(e).__name__)
  finally:
    sys.settrace(None)
    os.environ.pop('AUTOGRAPH_STRICT_CONVERSION', None)
  viol = []
  where = 'fault %s at occurrence %d of %s:%s called from %s:%d' % ((exc_type.__name__, occ) + key)
  if not fired[0]:
    return [], 'not-reached'
  if strict:
    if got != ('exc', exc_type.__name__):
      viol.append(('strict-mode', '%s in strict mode: expected the injected exception to propagate, got %r' % (where, got)))
    del ag_ctx._control_ctx()[stack_depth:]
    return viol, got
  if got != want:
    viol.append(('fallback-result', '%s: converted_call gives %r, the direct call gives %r' % (where, got, want)))
  if list(counts) != n_direct:
    viol.append(('fallback-invocations', '%s: the target body ran %r, expected %r' % (where, list(counts), n_direct)))
  nwarn = len(_S['warnings'])
  if nwarn != 1:
    viol.append(('fallback-warnings', '%s: %d warnings emitted, expected exactly one' % (where, nwarn)))
  if ag_ctx.control_status_ctx() is not before or len(ag_ctx._control_ctx()) != stack_depth:
    viol.append(('fallback-status', '%s: conversion status stack changed' % where))
    del ag_ctx._control_ctx()[stack_depth:]
  lock = api._TRANSPILER._cache_lock
  if not lock.acquire(blocking=False):
    viol.append(('fallback-lock', '%s: the cache lock is still held' % where))
  else:
    lock.release()
    # an RLock held by this thread would also be acquirable: check from another thread
    res = []
    th = threading.Thread(target=lambda: res.append(lock.acquire(timeout=2) and (lock.release() or True)))
    th.start()
    th.join(5)
    if res != [True]:
      viol.append(('fallback-lock', '%s: the cache lock is still held by the converting thread' % where))
  if second_call:
    # the failure is remembered: a second call makes no conversion attempt
    del _S['converted'][:]
    nw = len(_S['warnings'])
    del counts[:]
    try:
      got2 = ('ret', norm(api.converted_call(fn, args, kwargs, options=options)))
    except BaseException as e:  # pylint:disable=broad-except
      got2 = ('exc', type(e).__name__)
    if got2 != want:
      viol.append(('remembered-result', '%s: second call gives %r, expected %r' % (where, got2, want)))
    if any(k == 'enter' for k, _ in _S['converted']):
      viol.append(('not-remembered', '%s: the second call attempted the conversion again' % where))
    if len(_S['warnings']) != nw:
      viol.append(('not-remembered', '%s: the second call warned again' % where))
    # ... but only for these options: under another option value the decision is taken afresh (the conversion now succeeds)
    del _S['converted'][:]
    del counts[:]
    other = converter.ConversionOptions(recursive=True, user_requested=False, optional_features=converter.Feature.BUILTIN_FUNCTIONS)
    try:
      got3 = ('ret', norm(api.converted_call(fn, args, kwargs, options=other)))
    except BaseException as e:  # pylint:disable=broad-except
      got3 = ('exc', type(e).__name__)
    if got3 != want:
      viol.append(('other-options-result', '%s: a later call under other options gives %r, expected %r' % (where, got3, want)))
    if not any(k == 'done' for k, _ in _S['converted']):
      viol.append(('remembered-across-options', '%s: a later call under a different option value was not converted' % where))
  return viol, got


def check(item):
  if item[0] == 'modrow':
    viol = check_modrow(item)
    out = [util.V('%s|module=%s|opts=%s|%s' % (k, item[1], OPTS[item[2]], item[3]), '%s: %s' % (k, m), item) for k, m in viol]
    return {'viol': out, 'n': {'evaluations': 1, 'table_rows': 1}, 'outcome': repr(item), 'nontrivial': repr(item),
            'sample': {'row': list(item)}}
  if item[0] == 'spair':
    viol, obs = check_status_pair(item)
    out = [util.V('after-%s-under-%s|%s|%s|opts=%s|%s' % (item[1], item[3], k, item[1], OPTS[item[2]], item[4]),
                  'after a call of the same %s while the status was %s: %s: %s' % (item[1], item[3], k, m), item) for k, m in viol]
    return {'viol': out, 'n': {'evaluations': 2, 'call_pairs': 1}, 'outcome': repr((item, obs)), 'nontrivial': repr(item),
            'sample': {'pair': list(item), 'observed': repr(obs)[:200]}}
  if item[0] == 'pair':
    viol, obs = check_pair(item)
    out = [util.V('after-%s-%s|%s|%s|%s|opts=%s|%s' % (item[1], OPTS[item[2]], k, item[3], item[6], OPTS[item[4]], item[5]),
                  'after a call of %s with %s: %s: %s' % (item[1], OPTS[item[2]], k, m), item) for k, m in viol]
    return {'viol': out, 'n': {'evaluations': 2, 'call_pairs': 1}, 'outcome': repr((item, obs)), 'nontrivial': repr(item),
            'sample': {'pair': list(item), 'observed': repr(obs)[:200]}}
  if item[0] == 'row':
    viol, obs = check_row(item)
    out = [util.V('%s|%s|%s|opts=%s|%s' % (k, item[1], item[2], OPTS[item[3]], item[4]), '%s: %s' % (k, m), item) for k, m in viol]
    return {'viol': out, 'n': {'evaluations': 1, 'table_rows': 1}, 'outcome': repr((item, obs)), 'nontrivial': repr(item),
            'sample': {'row': list(item), 'observed': repr(obs)[:200]}}
  _, target, mode = item[:3]
  events = record_points(target)
  viol = []
  nrun = 0
  reached = 0
  outcomes = []
  if mode == 'stage':
    pts = select_points(events, 'stage')
    combos = [(i, e) for i in pts for e in exc_types()]
  elif mode == 'strict':
    pts = select_points(events, 'stage')
    combos = [(i, e) for i in pts for e in exc_types()[:2]]
  else:
    from malt.pyct import errors
    pts = select_points(events, 'fine', item[3], item[4], _S.get('seed', 0))
    combos = [(i, e) for i in pts for e in (ValueError, errors.UnsupportedLanguageElementError)]
  for i, e in combos:
    v, got = run_fault(target, i, e, strict=(mode == 'strict'))
    nrun += 1
    if got != 'not-reached':
      reached += 1
    outcomes.append((tuple(i[0][:2]) + (i[1],), e.__name__, repr(got)[:40]))
    for k, m in v:
      if not any(x[0] == k for x in viol):
        viol.append((k, m))
  out = [util.V('%s|%s|%s' % (k, target, mode), '%s: %s' % (k, m), item) for k, m in viol]
  return {'viol': out, 'n': {'evaluations': nrun, 'fault_runs': nrun, 'faults_reached': reached, 'recorded_call_boundaries': len(events)},
          'outcome': repr(outcomes), 'nontrivial': ['%s|%s|%s|%s' % (target, mode, ev, en) for ev, en, _ in outcomes],
          'sample': {'target': target, 'mode': mode, 'points': len(pts), 'first_points': [list(p[0]) + [p[1]] for p in pts[:3]]}}


def exhaustive(tier, n):
  return tier == 'thorough'


def _canary():
  v = check_row(('row', 'function', 'args', 0, 'UNSPECIFIED'), double_call=True)[0]
  return any(k[0] == 'invocations' for k in v)


CANARIES = [('invocation_oracle_fires_when_the_counter_is_bumped_twice', _canary)]
MAX_WORKERS = 16
