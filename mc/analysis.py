"""Runs malt's static analyses on a generated program and executes the
probe-instrumented copy on every environment tape (shared by C06, C07, C08)."""
import ast

from mc import access
from mc import observe
from mc import tape as tapemod


class E2(Exception):
  pass


class Analysed(object):
  pass


def analyse(src, want=('rd', 'live')):
  from malt.pyct import anno, cfg, naming, qual_names, transformer
  from malt.pyct.static_analysis import activity, liveness, reaching_definitions, reaching_fndefs
  A = Analysed()
  A.src = src
  A.tree = ast.parse(src)
  A.fn = fn = A.tree.body[-1]
  info = transformer.EntityInfo(name='f', source_code=src, source_file=None, future_features=(), namespace={})
  ctx = transformer.Context(info, naming.Namer({}), None)
  qual_names.resolve(fn)
  activity.resolve(fn, ctx, None)
  A.graphs = graphs = cfg.build(fn)
  A.rd = {}
  A.live = {}
  def recording(cls, fn_):
    made = []
    orig_init = cls.__init__

    def rec_init(self, *a, **k):
      orig_init(self, *a, **k)
      made.append(self)
    cls.__init__ = rec_init
    try:
      fn_()
    finally:
      cls.__init__ = orig_init
    return made

  if 'rd' in want:
    for an in recording(reaching_definitions.Analyzer, lambda: reaching_definitions.resolve(fn, ctx, graphs)):
      A.rd[id(an.graph)] = an
  if 'live' in want:
    if 'rd' not in want:
      reaching_definitions.resolve(fn, ctx, graphs)
    reaching_fndefs.resolve(fn, ctx, graphs)
    for an in recording(liveness.Analyzer, lambda: liveness.resolve(fn, ctx, graphs)):
      A.live[id(an.graph)] = an
  # ids
  A.ids = {}
  A.rev = {}
  A.fn_ids = {}
  A.fn_of_id = {}
  A.for_targets = {}
  for k, (f, g) in enumerate(graphs.items()):
    if isinstance(f, ast.Lambda):
      continue
    A.fn_ids[f] = k
    A.fn_of_id[k] = (f, g)
    for a, node in g.index.items():
      i = len(A.ids)
      A.ids[a] = i
      A.rev[i] = node
  for n in ast.walk(fn):
    if isinstance(n, ast.For):
      A.for_targets[n.iter] = n.target
  A.top_id = A.fn_ids[fn]
  return A


class Runner(object):
  """Executes the instrumented program; yields per-tape access logs."""

  def __init__(self, A, cap):
    self.A = A
    inst = observe.instrument(A.tree, A.ids, A.fn_ids)
    code = compile(inst, '<instr>', 'exec')
    self.env = env = tapemod.Env(cap)
    self.rec = rec = access.SeqRecorder()
    g = {'c': env.c, 'it': env.it, 'it2': env.it2, 'it3': env.it3, 't': env.t, 'cm': env.cm, 'E': tapemod.E, 'E2': E2, 'mark': env.mark, 'G': 9, 'p': tapemod.Obj()}
    g.update(rec.namespace())
    exec(code, g)  # pylint:disable=exec-used
    self.f = g['f']

  def run_ref(self):
    self.rec.reset()
    o = tapemod.Obj()
    d = {'k': 8}
    try:
      self.f(o, d)
      return 'ret'
    except tapemod.E:
      return 'E'
    except NameError:
      return 'NameError'
    except TypeError:
      # e.g. arithmetic on the list bound by a starred loop target: the execution ends there, its prefix is still a real execution
      return 'TypeError'

  def accesses(self):
    A = self.A
    return access.build(self.rec.seq, A.rev, lambda tr: tr.fn == A.top_id, A.for_targets,
                        lambda fid: A.fn_of_id[fid][1].entry)
