"""E1 - program-space explorer: exhaustive enumeration of small programs.

A program body is a tuple of statements; a statement is a tuple whose first
element is its kind.  `blocks(n, ctx)` yields every statement list with exactly
n statement nodes that the menu in ctx allows (compound statements count 1 +
their bodies).  Enumeration order is simplest-first so the first
counterexample is also the smallest.

Simple kinds (v = variable name):
  ('W', v)    v = <site>                 ('R', v)   t(<site>, v)
  ('RW', v)   v = v * 100 + <site>       ('AUG', v) v += <site>
  ('TUP',)    x, y = y, x                ('DEL', v) del v
  ('ret', v|None)  ('brk',)  ('cont',)  ('raise',)  raise E(mark(<site>))
  ('ATTR',)   o.a = o.a * 100 + <site>   ('SUB',)   d['k'] = d['k'] * 100 + <site>
  ('RATTR',)  t(<site>, o.a)             ('RSUB',)  t(<site>, d['k'])
  ('AND', v)  v = t(s,c(s)) and t(s,c(s))     ('OR', v)   ... or ...
  ('NOT', v)  v = not c(s)               ('IFEXP', v) v = t(s,1) if c(s) else t(s,2)
  ('CMP', v)  v = t(s,1) < t(s,c(s)+1) < t(s,3)    ('COMP', v) v = [t(s,j) for j in it(s)]
  ('DEFR', v) def g(): return v * 100 + <site>     ('DEFW', v) def g(): nonlocal v; v = v*100+<site>; return v
  ('LAM', v)  g = lambda: v * 100 + <site>         ('CALL', v) v = t(<site>, g())
  ('CALLH', v, k)  v = h<k>(v)   (module-level helper, converted recursively)
Compound kinds:
  ('if', body, orelse)  ('while', body)  ('for', target, body)   target: 'i' | v | 'xy'
  ('with', body)  ('try', body, handler|None, final|None)
"""
import itertools


DIRECTIVE_KEYS = ('maximum_iterations', 'parallel_iterations')


def directive_text(site):
  if site % 3 == 2:
    return '%d, maximum_iterations=%d' % (1000 + site, 2000 + site)       # first positional parameter = parallel_iterations
  return '%s=%d' % (DIRECTIVE_KEYS[site % 3], 1000 + site)


def directive_expected(site):
  if site % 3 == 2:
    return {'parallel_iterations': 1000 + site, 'maximum_iterations': 2000 + site}
  return {DIRECTIVE_KEYS[site % 3]: 1000 + site}


class Menu(object):
  def __init__(self, name, simple, compound, vars_=('x', 'y'), depth=3, for_targets=('i',), ret=('x', None),
               raise_in_handler=True):
    self.name = name
    self.simple = tuple(simple)
    self.compound = tuple(compound)
    self.vars = tuple(vars_)
    self.depth = depth
    self.for_targets = tuple(for_targets)
    self.ret = tuple(ret)
    self.raise_in_handler = raise_in_handler


VAR_KINDS = ('W', 'R', 'RW', 'AUG', 'DEL', 'AND', 'OR', 'NOT', 'IFEXP', 'CMP', 'COMP', 'DEFR', 'DEFW', 'DEFIFW', 'LAM', 'CALL',
             'CALLK', 'CALLT', 'DEF2R', 'DEF2W', 'CALLP', 'CALLP0')
NOVAR_KINDS = ('TUP', 'ATTR', 'SUB', 'RATTR', 'RSUB', 'raise', 'S', 'PASS', 'LAMBDA', 'CALLG', 'CLASS', 'FAIL', 'DEFN', 'ALIAS', 'DEFT', 'MKP', 'BINDP', 'SUBPA', 'SUBPI', 'RETK', 'BINDJ', 'SUBJ', 'LSTW', 'SLICEW', 'DCTW', 'TUPW')


def simple_stmts(menu, loop, fin):
  # fin: False | True (directly in a finally clause: no return / break / continue) | 'loop' (in a loop nested in a
  # finally clause: break / continue belong to that loop, a return would still leave the finally clause - PEP 765)
  for k in menu.simple:
    if k in VAR_KINDS:
      for v in menu.vars:
        yield (k, v)
    elif k == 'ret':
      if not fin:
        for v in menu.ret:
          yield ('ret', v)
    elif k == 'brk':
      if loop and fin is not True:
        yield ('brk',)
    elif k == 'cont':
      if loop and fin is not True:
        yield ('cont',)
    elif k == 'CALLH':
      for v in menu.vars[:1]:
        for h in (1, 2, 3):
          yield ('CALLH', v, h)
    elif k in NOVAR_KINDS:
      yield (k,)
    else:
      raise ValueError(k)


def blocks(n, menu, d=None, loop=False, fin=False):
  """All statement lists with exactly n nodes."""
  if d is None:
    d = menu.depth
  if n == 0:
    yield ()
    return
  for k in range(1, n + 1):
    for s in stmts(k, menu, d, loop, fin):
      for rest in blocks(n - k, menu, d, loop, fin):
        yield (s,) + rest


def nblocks(n, menu, d, loop, fin):
  if n >= 1:
    for b in blocks(n, menu, d, loop, fin):
      yield b


def stmts(k, menu, d, loop, fin):
  """All statements with exactly k nodes."""
  if k == 1:
    for s in simple_stmts(menu, loop, fin):
      yield s
    return
  if d <= 0:
    return
  m = k - 1
  comp = menu.compound
  if 'if' in comp:
    for b in nblocks(m, menu, d - 1, loop, fin):
      yield ('if', b, ())
  if 'ifelse' in comp:
    for a in range(1, m):
      for b in nblocks(a, menu, d - 1, loop, fin):
        for c in nblocks(m - a, menu, d - 1, loop, fin):
          yield ('if', b, c)
  if 'while' in comp:
    for b in nblocks(m, menu, d - 1, True, fin and 'loop'):
      yield ('while', b)
  if 'for' in comp:
    for b in nblocks(m, menu, d - 1, True, fin and 'loop'):
      for tg in menu.for_targets:
        yield ('for', tg, b)
  if 'with' in comp:
    for b in nblocks(m, menu, d - 1, loop, fin):
      yield ('with', b)
  if 'tryex' in comp:
    for a in range(1, m):
      for b in nblocks(a, menu, d - 1, loop, fin):
        for c in nblocks(m - a, menu, d - 1, loop, fin):
          yield ('try', b, c, None)
  if 'tryO' in comp:
    # handler for an exception class that is never raised: the raise passes through
    for a in range(1, m):
      for b in nblocks(a, menu, d - 1, loop, fin):
        for c in nblocks(m - a, menu, d - 1, loop, fin):
          yield ('tryO', b, c)
  if 'tryfin' in comp:
    for a in range(1, m):
      for b in nblocks(a, menu, d - 1, loop, fin):
        for c in nblocks(m - a, menu, d - 1, loop, True):
          yield ('try', b, None, c)
  if 'whileelse' in comp:
    for a in range(1, m):
      for b in nblocks(a, menu, d - 1, True, fin and 'loop'):
        for c in nblocks(m - a, menu, d - 1, loop, fin):
          yield ('while', b, c)
  if 'forelse' in comp:
    for a in range(1, m):
      for b in nblocks(a, menu, d - 1, True, fin and 'loop'):
        for c in nblocks(m - a, menu, d - 1, loop, fin):
          for tg in menu.for_targets:
            if tg in ('i', 'x'):
              yield ('for', tg, b, c)
  if 'tryexelse' in comp:
    for a in range(1, m - 1):
      for b2 in range(1, m - a):
        for b in nblocks(a, menu, d - 1, loop, fin):
          for c in nblocks(b2, menu, d - 1, loop, fin):
            for e in nblocks(m - a - b2, menu, d - 1, loop, fin):
              yield ('tryelse', b, c, e)
  if 'tryK' in comp:
    for a in range(1, m):
      for b in nblocks(a, menu, d - 1, loop, fin):
        for c in nblocks(m - a, menu, d - 1, loop, fin):
          yield ('tryK', b, c)
  if 'trybareelse' in comp:
    for a in range(1, m - 1):
      for b2 in range(1, m - a):
        for b in nblocks(a, menu, d - 1, loop, fin):
          for c in nblocks(b2, menu, d - 1, loop, fin):
            for e in nblocks(m - a - b2, menu, d - 1, loop, fin):
              yield ('trybe', b, c, e)
  if 'try2h' in comp:
    for a in range(1, m - 1):
      for b2 in range(1, m - a):
        for b in nblocks(a, menu, d - 1, loop, fin):
          for c in nblocks(b2, menu, d - 1, loop, fin):
            for e in nblocks(m - a - b2, menu, d - 1, loop, fin):
              yield ('try2h', b, c, e)
  if 'def' in comp:
    for b in nblocks(m, menu, d - 1, False, False):
      if not contains_kind(b, ('CALLG', 'CALL', 'def')):
        yield ('def', b)
  if 'tryexfin' in comp:
    for a in range(1, m - 1):
      for b2 in range(1, m - a):
        for b in nblocks(a, menu, d - 1, loop, fin):
          for c in nblocks(b2, menu, d - 1, loop, fin):
            for e in nblocks(m - a - b2, menu, d - 1, loop, True):
              yield ('try', b, c, e)


def contains_kind(b, kinds):
  for st in b:
    if st[0] in kinds:
      return True
    for part in st[1:]:
      if isinstance(part, tuple) and part and isinstance(part[0], tuple) and contains_kind(part, kinds):
        return True
  return False


def size(b):
  n = 0
  for s in b:
    n += 1
    for part in s[1:]:
      if isinstance(part, tuple) and (not part or isinstance(part[0], tuple)):
        n += size(part)
  return n


class Render(object):
  """Renders a program to source, one statement per line, numbering sites."""

  def __init__(self, indent='    ', directives=False):
    self.lines = []
    self.site = 0
    self.ind = indent
    self.directives = directives

  def loop_directive(self, ind, site):
    if self.directives:
      # the form alternates between loops (one keyword / the other keyword / first argument positional + a keyword), so
      # that arguments leaking from one directive into another, or dropped positional ones, are visible
      self.emit(ind, 'setopts(%s)' % directive_text(site))

  def new(self):
    self.site += 1
    return self.site

  def emit(self, ind, s):
    self.lines.append(self.ind * ind + s)

  def block(self, b, ind):
    if not b:
      self.emit(ind, 'pass')
    for s in b:
      self.stmt(s, ind)

  def stmt(self, s, ind):
    k = s[0]
    e = self.emit
    if k == 'W':
      e(ind, '%s = %d' % (s[1], self.new()))
    elif k == 'R':
      e(ind, 't(%d, %s)' % (self.new(), s[1]))
    elif k == 'RW':
      e(ind, '%s = %s * 100 + %d' % (s[1], s[1], self.new()))
    elif k == 'AUG':
      e(ind, '%s += %d' % (s[1], self.new()))
    elif k == 'TUP':
      e(ind, 'x, y = y, x')
    elif k == 'DEL':
      e(ind, 'del %s' % s[1])
    elif k == 'ret':
      e(ind, 'return %s' % s[1] if s[1] else 'return')
    elif k == 'brk':
      e(ind, 'break')
    elif k == 'cont':
      e(ind, 'continue')
    elif k == 'raise':
      e(ind, 'raise E(mark(%d))' % self.new())
    elif k == 'ATTR':
      e(ind, 'zo.a = zo.a * 100 + %d' % self.new())
    elif k == 'SUB':
      e(ind, "d['k'] = d['k'] * 100 + %d" % self.new())
    elif k == 'RATTR':
      e(ind, 't(%d, zo.a)' % self.new())
    elif k == 'RSUB':
      e(ind, "t(%d, d['k'])" % self.new())
    elif k == 'AND':
      e(ind, '%s = t(%d, c(%d)) and t(%d, c(%d))' % (s[1], self.new(), self.new(), self.new(), self.new()))
    elif k == 'OR':
      e(ind, '%s = t(%d, c(%d)) or t(%d, c(%d))' % (s[1], self.new(), self.new(), self.new(), self.new()))
    elif k == 'NOT':
      e(ind, '%s = not c(%d)' % (s[1], self.new()))
    elif k == 'IFEXP':
      e(ind, '%s = t(%d, 1) if c(%d) else t(%d, 2)' % (s[1], self.new(), self.new(), self.new()))
    elif k == 'CMP':
      e(ind, '%s = t(%d, 1) < t(%d, c(%d) + 1) < t(%d, 3)' % (s[1], self.new(), self.new(), self.new(), self.new()))
    elif k == 'COMP':
      e(ind, '%s = [t(%d, j) for j in it(%d)]' % (s[1], self.new(), self.new()))
    elif k == 'DEFR':
      e(ind, 'def g():')
      e(ind + 1, 'return %s * 100 + %d' % (s[1], self.new()))
    elif k == 'DEFW':
      e(ind, 'def g():')
      e(ind + 1, 'nonlocal %s' % s[1])
      e(ind + 1, '%s = %s * 100 + %d' % (s[1], s[1], self.new()))
      e(ind + 1, 'return %s' % s[1])
    elif k == 'LAM':
      e(ind, 'g = lambda: %s * 100 + %d' % (s[1], self.new()))
    elif k == 'LSTW':        # a local list / dict and stores through a slice / a tuple index (they do not rebind the container)
      e(ind, 'x = [%d]' % self.new())
    elif k == 'SLICEW':
      e(ind, 'x[0:1] = [%d]' % self.new())
    elif k == 'DCTW':
      e(ind, 'y = {}')
    elif k == 'TUPW':
      e(ind, 'y[0, 1] = %d' % self.new())
    elif k == 'RETK':        # the return expression itself raises (KeyError), implicitly
      e(ind, "return d['missing%d']" % self.new())
    elif k == 'BINDJ':       # a name used as the index of a subscript store
      e(ind, "j = 'k'")
    elif k == 'SUBJ':
      e(ind, 'd[j] = d[j] * 100 + %d' % self.new())
    elif k == 'BINDP':       # an object variable first bound here ...
      e(ind, 'p = zo')
    elif k == 'SUBPA':       # ... whose attribute / element is the index of a subscript store
      e(ind, 'd[p.key] = d[p.key] * 100 + %d' % self.new())
    elif k == 'SUBPI':
      e(ind, "d[p.keys[0]] = d[p.keys[0]] * 100 + %d" % self.new())
    elif k == 'MKP':         # a partial with a bound keyword (needs the helpers; the partial object is local to the run)
      e(ind, 'p = functools.partial(hk, s=%d)' % self.new())
    elif k == 'CALLP':       # ... called with a further call-site keyword
      e(ind, '%s = t(%d, p(%s, o=%d))' % (s[1], self.new(), s[1], self.new()))
    elif k == 'CALLP0':      # ... and without
      e(ind, '%s = t(%d, p(%s))' % (s[1], self.new(), s[1]))
    elif k == 'DEFN':        # a local function of the same name that captures nothing
      e(ind, 'def g():')
      e(ind + 1, 'return %d' % self.new())
    elif k == 'ALIAS':       # the function object stays reachable under another name
      e(ind, 'k = g')
    elif k == 'CALLK':
      e(ind, '%s = t(%d, k())' % (s[1], self.new()))
    elif k == 'DEFT':        # reaches g transitively through another local function
      e(ind, 'def g2():')
      e(ind + 1, 'return g()')
    elif k == 'CALLT':
      e(ind, '%s = t(%d, g2())' % (s[1], self.new()))
    elif k == 'DEF2R':       # the capture sits two function levels down
      e(ind, 'def g():')
      e(ind + 1, 'def h():')
      e(ind + 2, 'return %s * 100 + %d' % (s[1], self.new()))
      e(ind + 1, 'return h()')
    elif k == 'DEF2W':
      e(ind, 'def g():')
      e(ind + 1, 'def h():')
      e(ind + 2, 'nonlocal %s' % s[1])
      e(ind + 2, '%s = %s * 100 + %d' % (s[1], s[1], self.new()))
      e(ind + 2, 'return %s' % s[1])
      e(ind + 1, 'return h()')
    elif k == 'CALL':
      e(ind, '%s = t(%d, g())' % (s[1], self.new()))
    elif k == 'CALLH':
      e(ind, '%s = h%d(%s)' % (s[1], s[2], s[1]))
    elif k == 'S':
      e(ind, 't(%d)' % self.new())
    elif k == 'PASS':
      e(ind, 'pass')
    elif k == 'LAMBDA':
      e(ind, 'lam = lambda: %d' % self.new())
    elif k == 'CLASS':
      e(ind, 'class K(object):')
      e(ind + 1, 'a = %d' % self.new())
    elif k == 'CALLG':
      e(ind, 'g()')
    elif k == 'def':
      e(ind, 'def g():')
      self.block(s[1], ind + 1)
    elif k == 'tryO':
      e(ind, 'try:')
      self.block(s[1], ind + 1)
      e(ind, 'except E2:')
      self.block(s[2], ind + 1)
    elif k == 'tryK':
      e(ind, 'try:')
      self.block(s[1], ind + 1)
      e(ind, 'except KeyError:')
      self.block(s[2], ind + 1)
    elif k == 'tryelse':
      e(ind, 'try:')
      self.block(s[1], ind + 1)
      e(ind, 'except E:')
      self.block(s[2], ind + 1)
      e(ind, 'else:')
      self.block(s[3], ind + 1)
    elif k == 'trybe':       # bare except + else: exceptions raised in the else clause go to the enclosing try
      e(ind, 'try:')
      self.block(s[1], ind + 1)
      e(ind, 'except:')
      self.block(s[2], ind + 1)
      e(ind, 'else:')
      self.block(s[3], ind + 1)
    elif k == 'try2h':
      e(ind, 'try:')
      self.block(s[1], ind + 1)
      e(ind, 'except E2:')
      self.block(s[2], ind + 1)
      e(ind, 'except E as err:')
      self.block(s[3], ind + 1)
    elif k == 'if':
      e(ind, 'if c(%d):' % self.new())
      self.block(s[1], ind + 1)
      if s[2]:
        e(ind, 'else:')
        self.block(s[2], ind + 1)
    elif k == 'while':
      e(ind, 'while c(%d):' % self.new())
      self.loop_directive(ind + 1, self.site)
      self.block(s[1], ind + 1)
      if len(s) > 2 and s[2]:
        e(ind, 'else:')
        self.block(s[2], ind + 1)
    elif k == 'for':
      tg = s[1]
      if tg == 'xy':
        e(ind, 'for x, y in it2(%d):' % self.new())
      elif tg == 'nest':
        e(ind, 'for i, (x, y) in it3(%d):' % self.new())
      elif tg == 'star':
        e(ind, 'for x, *y in it2(%d):' % self.new())
      else:
        e(ind, 'for %s in it(%d):' % (tg, self.new()))
      self.loop_directive(ind + 1, self.site)
      self.block(s[2], ind + 1)
      if len(s) > 3 and s[3]:
        e(ind, 'else:')
        self.block(s[3], ind + 1)
    elif k == 'with':
      e(ind, 'with cm(%d):' % self.new())
      self.block(s[1], ind + 1)
    elif k == 'try':
      e(ind, 'try:')
      self.block(s[1], ind + 1)
      if s[2] is not None:
        e(ind, 'except E:')
        self.block(s[2], ind + 1)
      if s[3] is not None:
        e(ind, 'finally:')
        self.block(s[3], ind + 1)
    else:
      raise ValueError(s)


HELPERS = '''
import functools

def h1(a):
    n = 0
    for j in (1, 2, 3):
        if j > 2:
            break
        n = n * 10 + j + a
    return n


def h2(a):
    if a > 5:
        if a > 50:
            return a - 50
        return a + 1
    return h1(a) + 1


def h3(a):
    while a < 30:
        a = h2(a) + 3
    return a


def hk(a, s=0, o=0):
    return a * 10 + s * 3 + o
'''


def source(body, pro=(), epi=(), pid=0, params='zo, d', name='f', declare_global=False, helpers=False, pro_base=900,
           epilogue=True, directives=False):
  """Full module source for a program.  The unique pid constant keeps code
  objects of different programs from comparing equal (the cache keys on code
  objects by value)."""
  r = Render(directives=directives)
  r.emit(0, 'def %s(%s):' % (name, params))
  if declare_global:
    r.emit(1, 'global G')
  for v in pro:
    r.emit(1, '%s = %d' % (v, pro_base + ord(v[0]) % 10))
  r.block(body, 1) if body else None
  if not epilogue:
    if not body and not pro:
      r.emit(1, 'pass')
  elif epi:
    r.emit(1, 'return (%d, %s)' % (pid, ', '.join(epi)))
  else:
    r.emit(1, 'return (%d,)' % pid)
  src = '\n'.join(r.lines) + '\n'
  if helpers:
    src = HELPERS.lstrip('\n') + '\n\n' + src
  return src


# --- delta reduction support -------------------------------------------------

def reductions(body):
  """Programs one step smaller (candidates may be syntactically invalid, e.g. a
  hoisted `break`; callers discard those that do not compile)."""
  for i, s in enumerate(body):
    yield body[:i] + body[i + 1:]
    for alt in stmt_reductions(s):
      yield body[:i] + tuple(alt) + body[i + 1:]


def stmt_reductions(s):
  k = s[0]
  if k == 'if':
    yield s[1]
    if s[2]:
      yield s[2]
      yield (('if', s[1], ()),)
    for r in reductions(s[1]):
      if r:
        yield (('if', r, s[2]),)
    for r in reductions(s[2]):
      yield (('if', s[1], r),)
  elif k in ('while', 'with'):
    yield s[1]
    if len(s) > 2 and s[2]:
      yield s[2]
      yield ((k, s[1]),)
      for r in reductions(s[2]):
        yield ((k, s[1], r),)
    for r in reductions(s[1]):
      if r:
        yield ((k, r) + s[2:],)
  elif k == 'for':
    yield s[2]
    if len(s) > 3 and s[3]:
      yield s[3]
      yield (('for', s[1], s[2]),)
      for r in reductions(s[3]):
        yield (('for', s[1], s[2], r),)
    for r in reductions(s[2]):
      if r:
        yield (('for', s[1], r) + s[3:],)
  elif k in ('tryO', 'tryK'):
    yield s[1]
    for j in (1, 2):
      for r in reductions(s[j]):
        if r:
          yield (s[:j] + (r,) + s[j + 1:],)
  elif k in ('tryelse', 'try2h', 'trybe'):
    for j in (1, 2, 3):
      yield s[j]
      for r in reductions(s[j]):
        if r:
          yield (s[:j] + (r,) + s[j + 1:],)
    yield (('try', s[1], s[2] if k == 'tryelse' else s[3], None),)
  elif k == 'def':
    for r in reductions(s[1]):
      if r:
        yield (('def', r),)
  elif k == 'try':
    for j in (1, 2, 3):
      if s[j] is not None:
        yield s[j]
    if s[2] is not None and s[3] is not None:
      yield (('try', s[1], None, s[3]),)
      yield (('try', s[1], s[2], None),)
    for j in (1, 2, 3):
      if s[j] is not None:
        for r in reductions(s[j]):
          if r:
            yield (s[:j] + (r,) + s[j + 1:],)


def skeleton(body):
  """Variable-free rendering used for signatures."""
  out = []
  for s in body:
    k = s[0]
    if k == 'if':
      out.append('if(%s|%s)' % (skeleton(s[1]), skeleton(s[2])))
    elif k == 'while':
      out.append('while(%s%s)' % (skeleton(s[1]), '|else:' + skeleton(s[2]) if len(s) > 2 and s[2] else ''))
    elif k == 'for':
      out.append('for[%s](%s%s)' % (s[1] if s[1] in ('i', 'xy', 'nest', 'star') else 'v', skeleton(s[2]),
                                    '|else:' + skeleton(s[3]) if len(s) > 3 and s[3] else ''))
    elif k == 'with':
      out.append('with(%s)' % skeleton(s[1]))
    elif k in ('tryO', 'tryK'):
      out.append('%s(%s|%s)' % (k, skeleton(s[1]), skeleton(s[2])))
    elif k in ('tryelse', 'try2h', 'trybe'):
      out.append('%s(%s|%s|%s)' % (k, skeleton(s[1]), skeleton(s[2]), skeleton(s[3])))
    elif k == 'def':
      out.append('def(%s)' % skeleton(s[1]))
    elif k == 'try':
      out.append('try(%s|%s|%s)' % tuple('-' if p is None else skeleton(p) for p in s[1:]))
    else:
      out.append(k)
  return ' '.join(out)
