"""Differential execution of an original function and a converted artefact on
the same environment tapes (used by C01, C03, C04, C11, C17)."""
import linecache
import sys
import types

from mc import tape as tapemod
from mc import util

NAME_ERRORS = (NameError,)


class Harness(object):
  """One generated module: compiled from `src` under a synthetic file name
  registered in linecache (inspect / malt's parser accept this)."""

  def __init__(self, src, pid, cap=6, fn_name='f', extra_globals=None):
    import malt
    self.malt = malt
    self.src = src
    self.pid = pid
    self.fname = '<mcprog_%s>' % pid
    self.env = tapemod.Env(cap)
    linecache.cache[self.fname] = (len(src), None, src.splitlines(True), self.fname)
    dn = malt.experimental.do_not_convert
    env = self.env
    # a real module object, so that inspect.getmodule() works (lambda source lookup needs it)
    self.modname = 'mcprog_%s' % pid
    self.module = types.ModuleType(self.modname)
    sys.modules[self.modname] = self.module
    self.g = g = self.module.__dict__
    g.update({
        'c': dn(env.c), 'it': dn(env.it), 'it2': dn(env.it2), 'it3': dn(env.it3), 't': dn(env.t), 'cm': dn(env.cm),
        'mark': dn(env.mark), 'E': tapemod.E, 'E2': tapemod.E2, 'G': 9,
        'p': tapemod.Obj(),    # what `p` means in programs that never bind it locally
    })
    if extra_globals:
      g.update(extra_globals)
    exec(compile(src, self.fname, 'exec'), g)  # pylint:disable=exec-used
    self.f = g[fn_name]
    self.reset_hooks = []

  def close(self):
    linecache.cache.pop(self.fname, None)
    sys.modules.pop(self.modname, None)
    util.purge_generated()

  def convert(self, config):
    """config = (api, recursive, features) ; features = tuple of Feature names."""
    malt = self.malt
    api, recursive, feats = config
    F = malt.experimental.Feature
    of = tuple(getattr(F, n) for n in feats) or None
    if api == 'to_graph':
      return malt.to_graph(self.f, recursive=recursive, experimental_optional_features=of)
    elif api == 'convert':
      return malt.convert(recursive=recursive, optional_features=of)(self.f)
    raise ValueError(api)

  def run(self, fn, prefix):
    """Runs fn on a fresh state under the given tape prefix."""
    env = self.env
    env.reset(prefix)
    return self._run(fn)

  def _run(self, fn):
    env = self.env
    g = self.g
    g['G'] = 9
    o = tapemod.Obj()
    d = {'k': 8}
    for h in self.reset_hooks:
      h()
    try:
      r = ('ret', tapemod.srepr(fn(o, d)))
    except NAME_ERRORS:
      r = ('exc', 'NameError')
    except tapemod.TapeError as e:
      # only possible when replaying the reference's tape on the artefact under test:
      # it asked the environment a different question than the original did
      r = ('exc', 'DIVERGED(%s)' % e)
    except RecursionError:
      r = ('exc', 'RecursionError')
    except Exception as e:  # pylint:disable=broad-except
      r = ('exc', type(e).__name__)
    log = env.log
    if r[0] == 'exc' and r[1] == 'E' and env.markpos is not None:
      log = log[:env.markpos]
    post = (tapemod.srepr(sorted(o.__dict__.items())), tapemod.srepr(d), tapemod.srepr(g.get('G', '<deleted>')))
    return (r, tuple(log), post)


def first_difference(a, b):
  """Kind + description of the first observable difference of two outcomes."""
  (ra, la, pa), (rb, lb, pb) = a, b
  for i, (x, y) in enumerate(zip(la, lb)):
    if x != y:
      return 'log', 'effect #%d differs: original %r, converted %r' % (i, x, y)
  if len(la) != len(lb):
    longer = la if len(la) > len(lb) else lb
    return 'log', 'effect count differs: original %d, converted %d (first extra: %r)' % (len(la), len(lb), longer[min(len(la), len(lb))])
  if ra != rb:
    if ra[0] != rb[0]:
      return 'result-kind', 'original %r, converted %r' % (ra, rb)
    if ra[0] == 'exc':
      return 'exception-type', 'original raises %s, converted raises %s' % (ra[1], rb[1])
    return 'return-value', 'original returns %s, converted returns %s' % (ra[1], rb[1])
  if pa != pb:
    return 'post-state', 'final state of arguments/globals differs: original %r, converted %r' % (pa, pb)
  return None
