"""E2 - environment-tape explorer.

Every branch condition / iterable length in a generated program is answered by
the tape.  `explore` enumerates all tapes (stateless DFS: replay a prefix, take
default answers afterwards, branch on every alternative at every choice point
met) up to a length cap and a bound on the number of non-default answers.
"""


class TapeError(Exception):
  """A replayed answer is out of range for the question asked: hard error."""


class E(Exception):
  """The exception generated programs raise explicitly (no custom __init__)."""


class E2(Exception):
  """An exception class that is never raised (handlers for it never match)."""


class Obj(object):
  key = 'k'          # class attributes: not part of the instance state that is compared
  keys = ('k',)

  def __init__(self):
    self.a = 7

  def __repr__(self):
    return 'Obj(%r)' % (sorted(self.__dict__.items()),)


def srepr(v, depth=0):
  if isinstance(v, (int, float, str, bool)) or v is None:
    return repr(v)
  if isinstance(v, (list, tuple)) and depth < 4:
    return ('[%s]' if isinstance(v, list) else '(%s)') % ', '.join(srepr(x, depth + 1) for x in v)
  if isinstance(v, dict) and depth < 4:
    return '{%s}' % ', '.join('%s: %s' % (srepr(k), srepr(x, depth + 1)) for k, x in sorted(v.items(), key=repr))
  if isinstance(v, Obj):
    return repr(v)
  return '<%s>' % type(v).__name__


class Env(object):
  """The environment of one execution."""

  def __init__(self, cap=6):
    self.cap = cap
    self.for_targets = {}   # site of it()/it2() -> source text of the loop target (filled by the harness)
    self.reset(())

  def reset(self, prefix):
    self.tape = list(prefix)
    self.pos = 0
    self.asked = []
    self.log = []
    self.markpos = None
    self.cap_hit = False
    self.last_site = None
    self.site_fresh = False
    self.last_iterable = None

  def choose(self, n):
    i = self.pos
    self.pos += 1
    if i >= self.cap:
      self.cap_hit = True
      return 0
    if i < len(self.tape):
      v = self.tape[i]
      if v >= n:
        raise TapeError('answer %d out of range %d at position %d' % (v, n, i))
    else:
      v = 0
      self.tape.append(0)
    self.asked.append(n)
    return v

  # --- callables visible to generated programs
  def c(self, site):
    self.last_site = site
    self.site_fresh = True
    v = bool(self.choose(2))
    self.log.append(('c', site, v))
    return v

  def it(self, site):
    self.last_site = site
    self.site_fresh = True
    n = self.choose(3)
    self.log.append(('it', site, n))
    items = [site * 100 + j for j in range(n)]
    k = site % 3
    if k == 0:
      r = items
    elif k == 1:
      r = tuple(items)
    else:
      r = _LogIter(self, site, items)
    self.last_iterable = r
    return r

  def it2(self, site):
    self.last_site = site
    self.site_fresh = True
    n = self.choose(3)
    self.log.append(('it2', site, n))
    r = [(site * 100 + j, site * 100 + 50 + j) for j in range(n)]
    self.last_iterable = r
    return r

  def it3(self, site):
    self.last_site = site
    self.site_fresh = True
    n = self.choose(3)
    self.log.append(('it3', site, n))
    r = [(site * 100 + 80 + j, (site * 100 + j, site * 100 + 50 + j)) for j in range(n)]
    self.last_iterable = r
    return r

  def t(self, site, *vals):
    self.log.append(('t', site) + tuple(srepr(v) for v in vals))
    return vals[-1] if vals else None

  def mark(self, site):
    self.log.append(('raise', site))
    self.markpos = len(self.log)
    return site

  def cm(self, site):
    return _CM(self, site)


class _LogIter(object):
  """A one-shot iterator whose consumption is observable: every __next__ call
  (including the one that raises StopIteration) is an effect."""

  def __init__(self, env, site, items):
    self.env = env
    self.site = site
    self.items = list(items)
    self.pos = 0

  def __iter__(self):
    return self

  def __next__(self):
    self.env.log.append(('next', self.site, self.pos))
    if self.pos >= len(self.items):
      self.pos += 1
      raise StopIteration
    v = self.items[self.pos]
    self.pos += 1
    return v


class _CM(object):
  def __init__(self, env, site):
    self.env = env
    self.site = site

  def __enter__(self):
    self.env.log.append(('enter', self.site))
    return self

  def __exit__(self, et, ev, tb):
    self.env.log.append(('exit', self.site, et.__name__ if et else None))
    return False


def nonzero(tape):
  return sum(1 for v in tape if v)


def explore(env, run_ref, on_execution, dev=3, max_exec=5000):
  """run_ref() runs the reference under env (already reset with the prefix);
  on_execution(tape, asked, ref_result) is called for every complete tape.
  Returns (executions, cap_hits, truncated)."""
  work = [()]
  nexec = 0
  cap_hits = 0
  while work:
    prefix = work.pop()
    env.reset(prefix)
    ref = run_ref()
    tape = tuple(env.tape)
    asked = tuple(env.asked)
    if env.cap_hit:
      cap_hits += 1
    nexec += 1
    on_execution(tape, asked, ref)
    if nexec >= max_exec:
      return nexec, cap_hits, True
    for i in range(len(prefix), len(tape)):
      if nonzero(tape[:i]) + 1 > dev:
        break
      for alt in range(1, asked[i]):
        work.append(tape[:i] + (alt,))
  return nexec, cap_hits, False
