"""E5 - schedule explorer: a cooperative scheduler that owns every thread of a
small harness running the REAL code, with iterative preemption bounding.

A thread runs only while it holds the baton; it yields at scheduling points:
every `line` event (sys.settrace) of code whose file is in `files`, and every
acquire/release of a scheduler-aware lock.  The default choice keeps the
running thread; switching away from a still-enabled thread costs one
preemption.  Executions always run to completion."""
import sys
import threading


class ReplayDivergence(Exception):
  pass


class Deadlock(Exception):
  pass


class Execution(object):
  """One controlled execution of a set of thread bodies under a schedule prefix."""

  def __init__(self, choices, files, skip_inside=('transform_ast', '_identifiers_of'), max_points=20000):
    self.choices = list(choices)
    self.files = tuple(files)
    self.skip_inside = tuple(skip_inside)
    self.max_points = max_points
    self.watchdog_s = 30
    self.pos = 0
    self.trace = []        # (order tuple, chosen index, running_still_enabled)
    self.sems = {}
    self.state = {}        # tid -> 'ready' | 'blocked' | 'done'
    self.threads = {}
    self.errors = {}
    self.main_sem = threading.Semaphore(0)
    self.deadlock = False
    self.diverged = None
    self.hung = False
    self.tls = threading.local()
    self.locks = []

  # --- thread management
  def spawn(self, tid, fn):
    sem = threading.Semaphore(0)
    self.sems[tid] = sem
    self.state[tid] = 'ready'

    def body():
      self.tls.tid = tid
      self.tls.skip = 0
      sem.acquire()
      sys.settrace(self._global_tracer)
      try:
        fn()
      except BaseException as e:  # pylint:disable=broad-except
        self.errors[tid] = e
      finally:
        sys.settrace(None)
        self.state[tid] = 'done'
        self._switch(tid, finished=True)
    th = threading.Thread(target=body)
    th.daemon = True
    self.threads[tid] = th
    th.start()

  def current(self):
    return getattr(self.tls, 'tid', None)

  def _enabled(self):
    return [t for t in sorted(self.state) if self.state[t] == 'ready']

  def _pick(self, running):
    en = self._enabled()
    if not en:
      return None
    order = ([running] if running in en else []) + [t for t in en if t != running]
    if self.pos < len(self.choices):
      c = self.choices[self.pos]
      if c >= len(order):
        # never raise inside a controlled thread: record the divergence (a hard error for the caller) and go on
        self.diverged = 'choice %d out of range %d at point %d' % (c, len(order), self.pos)
        c = 0
    else:
      c = 0
    self.pos += 1
    self.trace.append((tuple(order), c, running in en))
    return order[c]

  def _switch(self, tid, finished=False):
    if len(self.trace) > self.max_points:
      # horizon: stop offering alternatives, let everything run to completion
      nxt = tid if (not finished and self.state.get(tid) == 'ready') else (self._enabled() or [None])[0]
    else:
      nxt = self._pick(tid)
    if nxt is None:
      if any(s != 'done' for s in self.state.values()):
        self.deadlock = True
      self.main_sem.release()
      return
    if nxt == tid and not finished:
      return
    self.sems[nxt].release()
    if not finished:
      self.sems[tid].acquire()

  def point(self):
    tid = self.current()
    if tid is not None:
      self._switch(tid)

  # --- tracing
  def _global_tracer(self, frame, event, arg):
    if self.tls.skip:
      return None
    code = frame.f_code
    if code.co_name in self.skip_inside:
      self.tls.skip += 1
      return self._skip_tracer
    if code.co_filename.endswith(self.files):
      return self._local_tracer
    return None

  def _skip_tracer(self, frame, event, arg):
    if event == 'return':
      self.tls.skip -= 1
    return self._skip_tracer

  def _local_tracer(self, frame, event, arg):
    if event == 'line':
      self.point()
    return self._local_tracer

  # --- scheduler-aware re-entrant lock
  def make_lock(self):
    lk = SLock(self)
    self.locks.append(lk)
    return lk

  def run(self):
    first = self._pick(None)
    if first is None:
      return
    self.sems[first].release()
    if not self.main_sem.acquire(timeout=self.watchdog_s):
      # a controlled thread stopped co-operating (it died outside the baton protocol or blocks on something the
      # scheduler does not own): report it instead of hanging; the daemon threads are abandoned
      self.hung = True
      return
    if self.deadlock:
      return
    for th in self.threads.values():
      th.join(5)


class SLock(object):
  """Re-entrant lock whose blocking is visible to the scheduler."""

  def __init__(self, ex):
    self.ex = ex
    self.owner = None
    self.count = 0
    self.waiters = set()

  def acquire(self, blocking=True, timeout=-1):
    ex = self.ex
    tid = ex.current()
    if tid is None:
      # not a controlled thread (setup code): plain re-entrant semantics
      self.owner = 'main'
      self.count += 1
      return True
    ex.point()
    while self.owner not in (None, tid):
      ex.state[tid] = 'blocked'
      self.waiters.add(tid)
      ex._switch(tid)
    self.owner = tid
    self.count += 1
    return True

  def release(self):
    ex = self.ex
    self.count -= 1
    if self.count == 0:
      self.owner = None
      for t in list(self.waiters):
        if ex.state.get(t) == 'blocked':
          ex.state[t] = 'ready'
      self.waiters.clear()
    if ex.current() is not None:
      ex.point()

  __enter__ = acquire

  def __exit__(self, *a):
    self.release()


def preemptions(trace, upto):
  return sum(1 for (o, c, re_) in trace[:upto] if c != 0 and re_)


def explore(make_execution, bound, max_schedules=200000, shard=None, start=()):
  """make_execution(choices) -> (Execution after run, observation).  Enumerates every schedule with at most `bound`
  preemptions (DFS over alternatives at every scheduling point).  Returns (list of (choices, observation), truncated)."""
  results = []
  start = list(start)
  stack = [start]
  truncated = False
  while stack:
    prefix = stack.pop()
    ex, obs = make_execution(prefix)
    full = [t[1] for t in ex.trace]
    results.append((len(full), obs))
    if len(results) >= max_schedules:
      truncated = True
      break
    for i in range(len(prefix), len(ex.trace)):
      order, c, running_enabled = ex.trace[i]
      cost = preemptions(ex.trace, i)
      if shard is not None and prefix == start and i % shard[1] != shard[0]:
        continue   # sharding: the subtrees below the first deviation are split between workers by position
      for alt in range(1, len(order)):
        if cost + (1 if running_enabled else 0) > bound:
          continue
        stack.append(full[:i] + [alt])
  return results, truncated
