"""E4b - a miniature tracing (staging) operator backend in the style the docs
describe: traced conditionals run BOTH branches from the same get_state()
snapshot and keep select() terms for the declared outputs; traced loops run
test and body ONCE on placeholders injected through set_state() and emit a
loop term over exactly the state tuple.  The resulting term DAG is evaluated by
a small interpreter for every input.  Concrete conditions fall back to Python
semantics, as every real backend does."""
import types


class TracerBoolError(Exception):
  """Python tried to branch on a traced value: a native construct survived."""


class T(object):
  """A traced value (node of the term DAG)."""
  __slots__ = ('op', 'args')

  def __init__(self, op, *args):
    self.op = op
    self.args = args

  def _b(op):
    def f(self, other):
      return T(op, self, other)
    return f

  def _r(op):
    def f(self, other):
      return T(op, other, self)
    return f
  __add__ = _b('+')
  __radd__ = _r('+')
  __sub__ = _b('-')
  __rsub__ = _r('-')
  __mul__ = _b('*')
  __rmul__ = _r('*')
  __mod__ = _b('%')
  __rmod__ = _r('%')
  __floordiv__ = _b('//')
  __lt__ = _b('<')
  __le__ = _b('<=')
  __gt__ = _b('>')
  __ge__ = _b('>=')
  __eq__ = _b('==')
  __ne__ = _b('!=')
  __hash__ = object.__hash__

  def __neg__(self):
    return T('neg', self)

  def __bool__(self):
    raise TracerBoolError('traced value used as a Python bool')

  def __index__(self):
    raise TracerBoolError('traced value used as a Python index')

  def __repr__(self):
    return 'T(%s)' % self.op


class TRange(object):
  def __init__(self, n, pair=False):
    self.n = n
    self.pair = pair    # items are (index, index * 2 + 1): a loop with a tuple target


def trange(n):
  return TRange(n) if isinstance(n, T) else range(n)


def tpairs(n):
  return TRange(n, pair=True) if isinstance(n, T) else [(i, i * 2 + 1) for i in range(n)]


class Loop(object):
  """A traced loop: while cond(state) [and index < n]: state = body(state)."""

  def __init__(self, init, ph, cond, body_out, n=None, idx_ph=None):
    self.init = init
    self.ph = ph
    self.cond = cond
    self.body_out = body_out
    self.n = n
    self.idx_ph = idx_ph


def is_t(v):
  return isinstance(v, T)


class Backend(object):
  """Builds the traced operator set on top of a default ag__ module."""

  def __init__(self, base, drop_last_on_set=False):
    self.base = base
    self.fuel = 0
    self.stats = {'traced_if': 0, 'traced_while': 0, 'traced_for': 0, 'python_if': 0, 'python_loop': 0}
    self.drop_last_on_set = drop_last_on_set   # canary: a broken set_state wrapper

  def module(self):
    ag = types.ModuleType('malt')
    ag.__dict__.update(self.base.__dict__)
    ag.if_stmt = self.if_stmt
    ag.while_stmt = self.while_stmt
    ag.for_stmt = self.for_stmt
    ag.and_ = self.and_
    ag.or_ = self.or_
    ag.not_ = self.not_
    ag.if_exp = self.if_exp
    ag.eq = lambda a, b: a == b
    ag.not_eq = lambda a, b: a != b
    return ag

  def _set(self, set_state, values):
    set_state(tuple(values))

  # --- conditionals
  def if_stmt(self, cond, body, orelse, get_state, set_state, symbol_names, nouts):
    if not is_t(cond):
      self.stats['python_if'] += 1
      return body() if cond else orelse()
    self.stats['traced_if'] += 1
    if self.drop_last_on_set and nouts > 0:
      nouts -= 1      # canary: a backend that is told one output too few
    init = get_state()
    body()
    s1 = get_state()
    self._set(set_state, init)
    orelse()
    s2 = get_state()
    out = []
    for i in range(len(init)):
      if i < nouts:
        a, b = s1[i], s2[i]
        out.append(a if a is b else T('select', cond, a, b))
      else:
        out.append(init[i])     # input-only entries are not propagated by a functional conditional
    self._set(set_state, tuple(out))

  def if_exp(self, cond, if_true, if_false, expr_repr):
    if not is_t(cond):
      return if_true() if cond else if_false()
    return T('select', cond, if_true(), if_false())

  def and_(self, a, b):
    av = a()
    if not is_t(av):
      return av and b()
    return T('and', av, b())

  def or_(self, a, b):
    av = a()
    if not is_t(av):
      return av or b()
    return T('or', av, b())

  def not_(self, a):
    if not is_t(a):
      return not a
    return T('not', a)

  # --- loops
  def while_stmt(self, test, body, get_state, set_state, symbol_names, opts):
    init = get_state()
    first = test()
    if not is_t(first):
      # concrete loop condition: Python semantics
      self.stats['python_loop'] += 1
      c = first
      n = 0
      while c:
        body()
        c = test()
        if is_t(c):
          raise TracerBoolError('loop condition became traced after a concrete start')
        n += 1
        if n > 200:
          raise RuntimeError('python loop does not terminate while tracing')
      return
    self.stats['traced_while'] += 1
    ph = tuple(T('ph', object()) for _ in init)
    self._set(set_state, ph)
    cond = test()
    body()
    out = get_state()
    loop = Loop(init, ph, cond, out)
    self._set(set_state, tuple(T('proj', loop, i) for i in range(len(init))))

  def for_stmt(self, iter_, extra_test, body, get_state, set_state, symbol_names, opts):
    if not isinstance(iter_, TRange):
      self.stats['python_loop'] += 1
      if extra_test is not None:
        def guard():
          r = extra_test()
          if is_t(r):
            raise TracerBoolError('traced extra_test in a Python loop')
          return bool(r)
        if guard():
          for x in iter_:
            body(x)
            if not guard():
              break
      else:
        for x in iter_:
          body(x)
      return
    self.stats['traced_for'] += 1
    init = get_state()
    ph = tuple(T('ph', object()) for _ in init)
    idx = T('ph', object())
    self._set(set_state, ph)
    cond = extra_test() if extra_test is not None else True
    body((idx, idx * 2 + 1) if iter_.pair else idx)
    out = get_state()
    loop = Loop(init, ph, cond, out, n=iter_.n, idx_ph=idx)
    self._set(set_state, tuple(T('proj', loop, i) for i in range(len(init))))


class Evaluator(object):
  """Evaluates terms for one concrete input."""

  def __init__(self, args, fuel=2000):
    self.args = args
    self.fuel = fuel

  def run(self, term):
    return self.ev(term, {}, {})

  def ev(self, t, ph, memo):
    if not isinstance(t, T):
      if isinstance(t, tuple):
        return tuple(self.ev(x, ph, memo) for x in t)
      if isinstance(t, list):
        return [self.ev(x, ph, memo) for x in t]
      return t
    k = id(t)
    if k in memo:
      return memo[k]
    op = t.op
    a = t.args
    if op == 'arg':
      r = self.args[a[0]]
    elif op == 'ph':
      r = ph[id(t)]
    elif op == 'select':
      r = self.ev(a[1], ph, memo) if self.ev(a[0], ph, memo) else self.ev(a[2], ph, memo)
    elif op == 'and':
      x = self.ev(a[0], ph, memo)
      r = self.ev(a[1], ph, memo) if x else x
    elif op == 'or':
      x = self.ev(a[0], ph, memo)
      r = x if x else self.ev(a[1], ph, memo)
    elif op == 'not':
      r = not self.ev(a[0], ph, memo)
    elif op == 'neg':
      r = -self.ev(a[0], ph, memo)
    elif op == 'proj':
      r = self.loop(a[0], ph, memo)[a[1]]
    else:
      x = self.ev(a[0], ph, memo)
      y = self.ev(a[1], ph, memo)
      if op == '+':
        r = x + y
      elif op == '-':
        r = x - y
      elif op == '*':
        r = x * y
      elif op == '%':
        r = x % y
      elif op == '//':
        r = x // y
      elif op == '<':
        r = x < y
      elif op == '<=':
        r = x <= y
      elif op == '>':
        r = x > y
      elif op == '>=':
        r = x >= y
      elif op == '==':
        r = x == y
      elif op == '!=':
        r = x != y
      else:
        raise ValueError(op)
    memo[k] = r
    return r

  def loop(self, L, ph, memo):
    k = ('loop', id(L))
    if k in memo:
      return memo[k]
    state = [self.ev(x, ph, memo) for x in L.init]
    n = self.ev(L.n, ph, memo) if L.n is not None else None
    i = 0
    while True:
      self.fuel -= 1
      if self.fuel < 0:
        raise RuntimeError('evaluation fuel exhausted (non-terminating traced loop)')
      if n is not None and i >= n:
        break
      ph2 = dict(ph)
      for p, v in zip(L.ph, state):
        ph2[id(p)] = v
      if L.idx_ph is not None:
        ph2[id(L.idx_ph)] = i
      m2 = {}
      if not self.ev(L.cond, ph2, m2):
        break
      state = [self.ev(x, ph2, m2) for x in L.body_out]
      i += 1
    memo[k] = state
    return state
