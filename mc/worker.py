"""Worker subprocess: enumerates the items of one property, checks those with
index mod W == w, writes a JSONL result file."""
import hashlib
import importlib
import json
import logging
import os
import sys
import traceback
import warnings


def h64(s):
  return hashlib.blake2b(s.encode('utf-8', 'replace'), digest_size=8).hexdigest()


def crash_violation(item, exc):
  """An exception escaped prop.check: if the innermost frame is library code it
  is reported as a violation (behaviour changed in a way the oracle does not
  model), otherwise it is a harness bug (re-raised)."""
  tb = traceback.extract_tb(exc.__traceback__)
  inner = tb[-1] if tb else None
  in_lib = inner is not None and '/malt/' in inner.filename and '/verif/' not in inner.filename
  if not in_lib:
    return None
  where = '%s:%s' % (os.path.basename(inner.filename), inner.name)
  return {'sig': 'CRASH:%s:%s' % (type(exc).__name__, where),
          'msg': 'unexpected %s in %s: %s' % (type(exc).__name__, where, str(exc)[:300]),
          'replay': {'item': item}}


class ItemTimeout(BaseException):
  """Raised by the per-item watchdog (BaseException: library code catching Exception must not swallow it)."""


def _on_alarm(signum, frame):
  raise ItemTimeout()


def run(pid, tier, w, W, seed, out, limit):
  import signal
  logging.disable(logging.CRITICAL)
  warnings.simplefilter('ignore')
  sys.setrecursionlimit(10000)
  prop = importlib.import_module('mc.props.%s' % pid.lower())
  if hasattr(prop, 'setup'):
    prop.setup(tier, seed)
  f = open(out, 'w')
  n = {}
  outcomes = set()
  nontrivial = set()
  samples = []
  canaries = {}
  extra = {}
  items = 0
  nviol = 0
  per_sig = {}

  item_timeout = getattr(prop, 'ITEM_TIMEOUT', {}).get(tier, 300 if tier == 'quick' else 1800)
  cans = getattr(prop, 'CANARIES', [])
  for k, (name, fn) in enumerate(cans):
    if k % W == w:
      canaries[name] = bool(fn())

  determinism_ok = True
  only = os.environ.get('VERIF_ITEM_FILTER')    # debugging aid: process only items whose repr contains this text
  for i, item in enumerate(prop.items(tier, seed)):
    if i % W != w:
      continue
    if only and only not in repr(item):
      continue
    if limit and items >= limit:
      break
    items += 1
    try:
      # watchdog: a change in the library that makes one item run (nearly) forever must end as a violation, not as a hang
      signal.signal(signal.SIGALRM, _on_alarm)
      signal.setitimer(signal.ITIMER_REAL, item_timeout)
      res = prop.check(item)
      signal.setitimer(signal.ITIMER_REAL, 0)
      if items <= 8 and getattr(prop, 'DETERMINISTIC', True):
        res2 = prop.check(item)
        if res2.get('outcome') != res.get('outcome'):
          determinism_ok = False
          sys.stdout.write('nondeterministic item %r\n%r\n%r\n' % (item, res.get('outcome'), res2.get('outcome')))
    except ItemTimeout:
      res = {'viol': [{'sig': 'TIMEOUT', 'msg': 'the item did not finish within %d s (on the unchanged tree every item takes a small fraction of that)' % item_timeout,
                       'replay': {'item': item}}]}
    except Exception as e:  # pylint:disable=broad-except
      signal.setitimer(signal.ITIMER_REAL, 0)
      v = crash_violation(item, e)
      if v is None:
        raise
      res = {'viol': [v]}
    finally:
      signal.setitimer(signal.ITIMER_REAL, 0)
    for c, v in res.get('n', {}).items():
      n[c] = n.get(c, 0) + v
    o = res.get('outcome')
    if o is not None:
      outcomes.add(h64(o if isinstance(o, str) else json.dumps(o, sort_keys=True, default=str)))
    nt = res.get('nontrivial')
    if nt:
      if isinstance(nt, (list, tuple, set)):
        for x in nt:
          nontrivial.add(h64(str(x)))
      else:
        nontrivial.add(h64(str(nt)))
    if 'sample' in res and len(samples) < 2 and (items % 97 == 1 or len(samples) == 0):
      samples.append(res['sample'])
    for k2, v2 in res.get('extra', {}).items():
      extra[k2] = v2
    for v in res.get('viol', []):
      nviol += 1
      # at most 3 reports per signature and worker (a known class with thousands of occurrences must not crowd out others)
      c = per_sig.get(v.get('sig'), 0)
      per_sig[v.get('sig')] = c + 1
      if c < 3 and len(per_sig) <= 3000:
        f.write(json.dumps({'k': 'viol', 'v': v}, default=str) + '\n')
        f.flush()
  if hasattr(prop, 'worker_done'):
    r = prop.worker_done()
    if r:
      for c, v in r.get('n', {}).items():
        n[c] = n.get(c, 0) + v
      extra.update(r.get('extra', {}))
  if items:
    canaries['determinism_selftest'] = determinism_ok
  n['violating_item_reports'] = nviol
  f.write(json.dumps({'k': 'done', 'n': n, 'outcomes': sorted(outcomes), 'nontrivial': sorted(nontrivial),
                      'items': items, 'samples': samples, 'canaries': canaries, 'extra': extra}, default=str) + '\n')
  f.close()


def replay(pid, path, out):
  logging.disable(logging.CRITICAL)
  warnings.simplefilter('ignore')
  prop = importlib.import_module('mc.props.%s' % pid.lower())
  if hasattr(prop, 'setup'):
    prop.setup('quick', 0)
  data = json.load(open(path))['violation']
  item = data['replay']['item']
  if isinstance(item, list):
    item = tuple_deep(item)
  try:
    res = prop.check(item)
  except Exception as e:  # pylint:disable=broad-except
    v = crash_violation(item, e)
    if v is None:
      raise
    res = {'viol': [v]}
  json.dump({'violations': res.get('viol', []), 'outcome': res.get('outcome')}, open(out, 'w'), default=str)


def tuple_deep(x):
  if isinstance(x, list):
    return tuple(tuple_deep(y) for y in x)
  return x


if __name__ == '__main__':
  mode = sys.argv[1]
  if mode == 'run':
    _, _, pid, tier, w, W, seed, out, limit = sys.argv
    run(pid, tier, int(w), int(W), int(seed), out, int(limit))
  else:
    _, _, pid, path, out = sys.argv
    replay(pid, path, out)
  sys.stdout.flush()
  os._exit(0)
