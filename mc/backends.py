"""E4 - operator backends injected through PyToPy.get_extra_locals().

MonitorTranspiler: wraps the default operators; on every dynamic invocation it
checks the documented calling contract (C03), counts invocations (C04), then
delegates to the default implementation."""
import importlib
import inspect
import sys
import types


class Monitor(object):
  """Collects contract violations and invocation counts of one execution."""

  def __init__(self, env=None):
    self.env = env
    self.viol = []
    self.counts = {}
    self.check_restore = True
    self.expect_directives = False
    self.enabled = True
    self.break_and = False   # canary: make and_ eager

  def reset(self):
    self.viol = []
    self.counts = {}

  def bump(self, name):
    self.counts[name] = self.counts.get(name, 0) + 1

  def bad(self, kind, msg):
    if not any(k == kind for k, _ in self.viol):
      self.viol.append((kind, msg))


def _is_undef(v, Undefined):
  return isinstance(v, Undefined)


def _nparams(fn):
  try:
    return len(inspect.signature(fn).parameters)
  except (TypeError, ValueError):
    return None


def make_ag_module(base_module, mon):
  """A copy of the default ag__ module whose operators are monitored."""
  ag = types.ModuleType('malt')
  ag.__dict__.update(base_module.__dict__)
  Undefined = base_module.Undefined
  d_if, d_while, d_for = base_module.if_stmt, base_module.while_stmt, base_module.for_stmt
  d_and, d_or, d_not, d_ifexp = base_module.and_, base_module.or_, base_module.not_, base_module.if_exp
  d_call = base_module.converted_call

  def caller_frame():
    return sys._getframe(2)

  def snapshot(frame):
    """Identity snapshot of what a state getter could disturb."""
    loc = {k: id(v) for k, v in frame.f_locals.items() if not k.startswith('__')}
    extra = []
    for k, v in frame.f_locals.items():
      if hasattr(v, '__dict__') and type(v).__name__ == 'Obj':
        extra.append((k, tuple(sorted((a, id(b)) for a, b in v.__dict__.items()))))
      elif isinstance(v, dict) and k == 'd':
        extra.append((k, tuple(sorted((repr(a), id(b)) for a, b in v.items()))))
    return loc, tuple(extra)

  def check_state(kind, frame, get_state, set_state, symbol_names, nouts=None):
    if not isinstance(symbol_names, tuple) or not all(isinstance(s, str) for s in symbol_names):
      mon.bad('names-type', '%s: symbol_names is %r, expected a tuple of strings' % (kind, symbol_names))
      return None
    before = snapshot(frame)
    try:
      state = get_state()
    except Exception as e:  # pylint:disable=broad-except
      mon.bad('get-state-raises', '%s: get_state() raised %s: %s' % (kind, type(e).__name__, e))
      return None
    if snapshot(frame) != before:
      mon.bad('get-state-effect', '%s%r: get_state() changed the caller\'s variables' % (kind, symbol_names))
    if not isinstance(state, tuple) or len(state) != len(symbol_names):
      mon.bad('state-length', '%s: names %r but get_state() returned %d entries' % (kind, symbol_names, len(state)))
      return None
    if nouts is not None and not (isinstance(nouts, int) and 0 <= nouts <= len(symbol_names)):
      mon.bad('nouts-range', '%s: nouts=%r with %d names' % (kind, nouts, len(symbol_names)))
    # position i denotes the variable named symbol_names[i]
    for i, (name, val) in enumerate(zip(symbol_names, state)):
      if _is_undef(val, Undefined):
        continue
      try:
        cur = eval(name, frame.f_globals, frame.f_locals)  # pylint:disable=eval-used
      except Exception:  # pylint:disable=broad-except
        mon.bad('state-name-unbound', '%s: state entry %d is %r but %s cannot be evaluated in the caller' % (kind, i, val, name))
        continue
      if cur is not val:
        mon.bad('state-position', '%s: names %r: entry %d of get_state() is %r but %s is %r' % (kind, symbol_names, i, val, name, cur))
    # writing back what was read changes nothing
    try:
      set_state(state)
    except Exception as e:  # pylint:disable=broad-except
      import re as _re0
      unbound_base = isinstance(e, NameError) and any(_is_undef(v, Undefined) and _re0.search(r'[.\[]', n) for n, v in zip(symbol_names, state))
      mon.bad('set-state-raises-unbound-base' if unbound_base else 'set-state-raises',
              '%s%r: set_state(get_state()) raised %s: %s' % (kind, symbol_names, type(e).__name__, e))
      return state
    if snapshot(frame) != before:
      # composite entries that read as Undefined and whose base variable is itself an (Undefined) entry of this state
      import re as _re
      undef_comp = [n for n, v in zip(symbol_names, state) if _is_undef(v, Undefined) and _re.search(r'[.\[]', n)]
      undef_names = set(n for n, v in zip(symbol_names, state) if _is_undef(v, Undefined))
      bases_in_state = bool(undef_comp) and all(
          any(t in undef_names for t in _re.findall(r'[A-Za-z_]\w*', n) if t != n) for n in undef_comp)
      mon.bad('set-state-identity-base-in-state' if bases_in_state else 'set-state-identity',
              '%s%r: set_state(get_state()) changed the caller\'s variables' % (kind, symbol_names))
    # a write followed by a read returns what was written (sentinels, then restore)
    # (an entry that another composite entry is built on - p of d[p.key] - keeps its value: a sentinel there would change
    # which location the other entry denotes)
    import re as _re2
    used_by_others = set(t for n in symbol_names for t in _re2.findall(r'[A-Za-z_]\w*', n) if t != n)
    sent = tuple(v if (_is_undef(v, Undefined) or symbol_names[i] in used_by_others) else _Sentinel(i) for i, v in enumerate(state))
    try:
      set_state(sent)
      back = get_state()
      if len(back) != len(sent) or any(a is not b for a, b in zip(sent, back) if not _is_undef(a, Undefined)):
        mon.bad('state-roundtrip', '%s%r: set_state(X) followed by get_state() does not return X (positions permuted or dropped)' % (kind, symbol_names))
    finally:
      set_state(state)
    if snapshot(frame) != before:
      mon.bad('state-restore', '%s%r: could not restore the state after the round-trip check' % (kind, symbol_names))
    return state

  def if_stmt(cond, body, orelse, get_state, set_state, symbol_names, nouts):
    mon.bump('if_stmt')
    frame = sys._getframe(1)
    init = None
    if mon.enabled:
      init = check_state('if_stmt', frame, get_state, set_state, symbol_names, nouts)
      for nm, fn in (('body', body), ('orelse', orelse)):
        if _nparams(fn) != 0:
          mon.bad('callback-arity', 'if_stmt: %s takes %s parameters, expected 0' % (nm, _nparams(fn)))
    r = d_if(cond, body, orelse, get_state, set_state, symbol_names, nouts)
    if mon.enabled and mon.check_restore and init is not None and isinstance(nouts, int) and 0 <= nouts <= len(init):
      # "outputs first": a backend only propagates the first nouts entries; the rest keep their initial value
      cur = get_state()
      if len(cur) == len(init):
        try:
          set_state(tuple(cur[:nouts]) + tuple(init[nouts:]))
        except Exception:  # pylint:disable=broad-except
          # only tolerated when an entry being written is the Undefined marker (writing it back through an unbound base
          # cannot be done); set_state failures as such are reported by check_state
          if not any(_is_undef(v, Undefined) for v in tuple(cur[:nouts]) + tuple(init[nouts:])):
            raise
    return r

  def while_stmt(test, body, get_state, set_state, symbol_names, opts):
    mon.bump('while_stmt')
    frame = sys._getframe(1)
    if mon.enabled:
      check_state('while_stmt', frame, get_state, set_state, symbol_names)
      if _nparams(test) != 0:
        mon.bad('callback-arity', 'while_stmt: test takes %s parameters, expected 0' % _nparams(test))
      if _nparams(body) != 0:
        mon.bad('callback-arity', 'while_stmt: body takes %s parameters, expected 0' % _nparams(body))
      check_opts('while_stmt', opts, None)
      first = [True]
      orig_test = test

      def test2():
        if first[0] and mon.env:
          mon.env.site_fresh = False
        r = orig_test()
        if first[0]:
          first[0] = False
          if mon.env and mon.env.site_fresh:   # the test asked the environment: the loop is one of the generated ones
            mon.env.site_fresh = False
            check_directive('while_stmt', opts, mon.env.last_site)
        return r
      test = test2
    return d_while(test, body, get_state, set_state, symbol_names, opts)

  def for_stmt(iter_, extra_test, body, get_state, set_state, symbol_names, opts):
    mon.bump('for_stmt')
    frame = sys._getframe(1)
    if mon.enabled:
      # the loop is one of the generated ones iff it iterates over what the environment just handed out
      site = mon.env.last_site if (mon.env and iter_ is mon.env.last_iterable) else None
      check_state('for_stmt', frame, get_state, set_state, symbol_names)
      if _nparams(body) != 1:
        mon.bad('callback-arity', 'for_stmt: body takes %s parameters, expected 1' % _nparams(body))
      if extra_test is not None and _nparams(extra_test) != 0:
        mon.bad('callback-arity', 'for_stmt: extra_test takes %s parameters, expected 0' % _nparams(extra_test))
      tgt = mon.env.for_targets.get(site) if (mon.env and site is not None) else None
      check_opts('for_stmt', opts, tgt)
      check_directive('for_stmt', opts, site)
    return d_for(iter_, extra_test, body, get_state, set_state, symbol_names, opts)

  def check_opts(kind, opts, target):
    if not isinstance(opts, dict):
      mon.bad('opts-type', '%s: opts is %r, expected a dict' % (kind, opts))
      return
    if kind == 'for_stmt':
      if 'iterate_names' not in opts:
        mon.bad('opts-iterate-names', 'for_stmt: opts %r has no iterate_names' % (opts,))
      elif target is not None and opts['iterate_names'].replace(' ', '') != target.replace(' ', ''):
        mon.bad('opts-iterate-names', 'for_stmt: iterate_names %r but the loop target is %r' % (opts['iterate_names'], target))
    elif 'iterate_names' in opts:
      mon.bad('opts-iterate-names', 'while_stmt: unexpected iterate_names')

  def check_directive(kind, opts, site):
    if not isinstance(opts, dict) or site is None:
      return
    rest = {k: v for k, v in opts.items() if k != 'iterate_names'}
    from mc import progspace
    want = progspace.directive_expected(site) if mon.expect_directives else {}
    if rest != want:
      mon.bad('opts-directives', '%s of the loop at site %d received options %r, the user wrote %r in that loop' % (kind, site, rest, want))

  def and_(a, b):
    mon.bump('and_')
    if not mon.enabled:
      return d_and(a, b)
    if _nparams(a) != 0 or _nparams(b) != 0:
      mon.bad('callback-arity', 'and_: operand thunks must take 0 parameters')
    calls = []
    va = []

    def a2():
      calls.append('a')
      va.append(a())
      return va[-1]

    def b2():
      calls.append('b')
      return b()
    if mon.break_and:
      b2()
    r = d_and(a2, b2)
    if calls[:1] != ['a'] or calls.count('a') != 1 or calls.count('b') > 1 or (va and not va[0] and 'b' in calls):
      mon.bad('lazy-and', 'and_: thunk call sequence %r with left value %r' % (calls, va[:1]))
    return r

  def or_(a, b):
    mon.bump('or_')
    if not mon.enabled:
      return d_or(a, b)
    calls = []
    va = []

    def a2():
      calls.append('a')
      va.append(a())
      return va[-1]

    def b2():
      calls.append('b')
      return b()
    r = d_or(a2, b2)
    if calls[:1] != ['a'] or calls.count('a') != 1 or calls.count('b') > 1 or (va and va[0] and 'b' in calls):
      mon.bad('lazy-or', 'or_: thunk call sequence %r with left value %r' % (calls, va[:1]))
    return r

  def not_(a):
    mon.bump('not_')
    return d_not(a)

  def if_exp(cond, if_true, if_false, expr_repr):
    mon.bump('if_exp')
    if not mon.enabled:
      return d_ifexp(cond, if_true, if_false, expr_repr)
    calls = []

    def t2():
      calls.append('t')
      return if_true()

    def f2():
      calls.append('f')
      return if_false()
    if _nparams(if_true) != 0 or _nparams(if_false) != 0:
      mon.bad('callback-arity', 'if_exp: branch thunks must take 0 parameters')
    if not isinstance(expr_repr, str):
      mon.bad('ifexp-repr', 'if_exp: expr_repr is %r' % (expr_repr,))
    r = d_ifexp(cond, t2, f2, expr_repr)
    if calls != (['t'] if cond else ['f']):
      mon.bad('lazy-ifexp', 'if_exp: cond %r but thunks called %r' % (bool(cond), calls))
    return r

  def converted_call(f, args, kwargs, caller_fn_scope=None, options=None):
    mon.bump('converted_call')
    return d_call(f, args, kwargs, caller_fn_scope, options)

  ag.if_stmt, ag.while_stmt, ag.for_stmt = if_stmt, while_stmt, for_stmt
  ag.and_, ag.or_, ag.not_, ag.if_exp = and_, or_, not_, if_exp
  ag.converted_call = converted_call
  return ag


class _Sentinel(object):
  def __init__(self, i):
    self.i = i

  def __repr__(self):
    return '<sentinel %d>' % self.i


def monitor_transpiler(mon):
  """A PyToPy whose generated code sees the monitored operators."""
  from malt.impl import api

  class MonitorTranspiler(api.PyToPy):
    def get_extra_locals(self):
      if self._extra_locals is None:
        base = api.PyToPy.get_extra_locals(self)['ag__']
        self._extra_locals = {'ag__': make_ag_module(base, mon)}
      return self._extra_locals
  return MonitorTranspiler()
