"""E3 - observers: probe instrumentation of generated programs.

`instrument(tree, ids)` returns an AST copy in which
  * `__p(tr, id)` precedes every simple statement (and nested def / class),
  * `__pe(tr, id, expr)` wraps if/while tests and with-item expressions,
  * `__pi(tr, id, iterable)` wraps for iterables (a generator that emits the
    header event before every `next`, including the failing one),
  * a catch-all `except BaseException: __prop(tr); raise` is slipped between a
    try's body+handlers and its finally, so that "an exception is propagating
    through this finally" is observable,
  * every function body starts with `__tr = __begin(fn_id)`.
`ids` maps AST nodes of the *uninstrumented* tree to the ids to report.
"""
import ast
import copy


def L(name):
  return ast.Name(id=name, ctx=ast.Load())


def call(name, *args):
  return ast.Call(func=L(name), args=list(args), keywords=[])


class Instrumenter(ast.NodeTransformer):

  def __init__(self, ids, fn_ids):
    self.ids = ids        # original ast node -> id
    self.fn_ids = fn_ids  # original FunctionDef node -> id

  def _p(self, orig):
    return ast.Expr(call('__p', L('__tr'), ast.Constant(self.ids[orig])))

  def _wrap(self, name, orig, expr):
    return call(name, L('__tr'), ast.Constant(self.ids[orig]), expr)

  def simple(self, node):
    orig = node._orig
    if orig in self.ids:
      return [self._p(orig), node]
    return node

  visit_Expr = visit_Return = visit_Break = visit_Continue = visit_Raise = visit_Assign = simple
  visit_AugAssign = visit_AnnAssign = visit_Pass = visit_Delete = visit_Global = visit_Nonlocal = simple
  visit_Import = visit_ImportFrom = visit_Assert = simple

  def visit_ClassDef(self, node):
    return self.simple(node)

  def visit_FunctionDef(self, node):
    orig = node._orig
    node.body = self._block(node.body)
    begin = ast.Assign(targets=[ast.Name(id='__tr', ctx=ast.Store())],
                       value=call('__begin', ast.Constant(self.fn_ids[orig])))
    k = 0
    while k < len(node.body) and isinstance(node.body[k], (ast.Global, ast.Nonlocal)):
      k += 1
    # declarations must stay first only syntactically for names they declare; __begin uses none of them
    node.body.insert(0, begin)
    if orig in self.ids:
      return [self._p_outer(orig), node]
    return node

  def _p_outer(self, orig):
    return ast.Expr(call('__p', L('__tr'), ast.Constant(self.ids[orig])))

  def _block(self, stmts):
    out = []
    for s in stmts:
      r = self.visit(s)
      if isinstance(r, list):
        out.extend(r)
      else:
        out.append(r)
    return out

  def visit_If(self, node):
    orig = node._orig
    node.body = self._block(node.body)
    node.orelse = self._block(node.orelse)
    node.test = self._wrap('__pe', orig.test, node.test)
    return node

  def visit_While(self, node):
    orig = node._orig
    node.body = self._block(node.body)
    node.orelse = self._block(node.orelse)
    node.test = self._wrap('__pe', orig.test, node.test)
    return node

  def visit_For(self, node):
    orig = node._orig
    node.body = self._block(node.body)
    node.orelse = self._block(node.orelse)
    node.iter = self._wrap('__pi', orig.iter, node.iter)
    return node

  def visit_With(self, node):
    orig = node._orig
    node.body = self._block(node.body)
    for it, oit in zip(node.items, orig.items):
      it.context_expr = self._wrap('__pe', oit, it.context_expr)
    return node

  def visit_Try(self, node):
    node.body = self._block(node.body)
    node.orelse = self._block(node.orelse)
    node.finalbody = self._block(node.finalbody)
    for h in node.handlers:
      h.body = self._block(h.body)
    if node.finalbody:
      if node.handlers:
        inner = [ast.Try(body=node.body, handlers=node.handlers, orelse=node.orelse, finalbody=[])]
      else:
        inner = node.body
      guard = ast.Try(
          body=inner,
          handlers=[ast.ExceptHandler(type=L('BaseException'), name=None,
                                      body=[ast.Expr(call('__prop', L('__tr'))), ast.Raise(exc=None, cause=None)])],
          orelse=[], finalbody=[])
      return ast.Try(body=[guard], handlers=[], orelse=[], finalbody=node.finalbody)
    return node


def link_copy(tree):
  """Deep copy of tree whose nodes carry `_orig` pointers to the originals."""
  new = copy.deepcopy(tree)
  for a, b in zip(ast.walk(tree), ast.walk(new)):
    assert type(a) is type(b)
    b._orig = a
  return new


def instrument(tree, ids, fn_ids):
  new = link_copy(tree)
  inst = Instrumenter(ids, fn_ids)
  body = []
  for s in new.body:
    r = inst.visit(s)
    if isinstance(r, list):
      # module-level probes are dropped (no __tr at module level)
      r = [x for x in r if not (isinstance(x, ast.Expr) and isinstance(x.value, ast.Call)
                                and getattr(x.value.func, 'id', '') == '__p')]
      body.extend(r)
    else:
      body.append(r)
  new.body = body
  return ast.fix_missing_locations(new)


class Trace(object):
  __slots__ = ('fn', 'events', 'prop')

  def __init__(self, fn):
    self.fn = fn
    self.events = []
    self.prop = False


class Recorder(object):
  """Run-time side of the probes."""

  def __init__(self):
    self.traces = []

  def reset(self):
    self.traces = []

  def begin(self, fn_id):
    tr = Trace(fn_id)
    self.traces.append(tr)
    return tr

  def p(self, tr, i):
    tr.events.append(i)

  def pe(self, tr, i, v):
    tr.events.append(i)
    return v

  def pi(self, tr, i, v):
    it = iter(v)
    while True:
      tr.events.append(i)
      try:
        x = next(it)
      except StopIteration:
        return
      yield x

  def prop(self, tr):
    if not tr.prop:
      tr.prop = True
      tr.events.append('PROP')

  def namespace(self):
    return {'__begin': self.begin, '__p': self.p, '__pe': self.pe, '__pi': self.pi, '__prop': self.prop}
