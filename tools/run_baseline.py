#!/usr/bin/env python3
"""Runs the repository's pinned test suite in <repo> (default /repo) and checks
that every test in BASELINE.json's stable_pass list passes."""
import json, subprocess, sys, tempfile, os, xml.etree.ElementTree as ET
repo = sys.argv[1] if len(sys.argv) > 1 else '/repo'
base = json.load(open('/root/.vp/BASELINE.json'))
with tempfile.TemporaryDirectory() as d:
  x = os.path.join(d, 'j.xml')
  env = dict(os.environ, PYTHONPATH=repo)
  subprocess.run(['/venv/bin/python', '-m', 'pytest', '-q', '-p', 'no:cacheprovider', '--timeout=900',
                  '--continue-on-collection-errors', '--junitxml=' + x], cwd=repo, env=env,
                 stdout=subprocess.DEVNULL, stderr=subprocess.DEVNULL)
  passed = set()
  for tc in ET.parse(x).getroot().iter('testcase'):
    if not any(c.tag in ('failure', 'error', 'skipped') for c in tc):
      passed.add('%s::%s' % (tc.get('classname'), tc.get('name')))
want = set(base['stable_pass'])
missing = sorted(want - passed)
print('stable_pass=%d passed_now=%d missing=%d' % (len(want), len(passed), len(missing)))
for m in missing[:20]:
  print('  NOT PASSING:', m)
sys.exit(1 if missing else 0)
