#!/usr/bin/env python3
"""Regenerates DESIGN.md section 10 (bounds completed by the quick tier) from evidence/*.json, and the thorough-tier
table from the summary lines of a directory of run_all logs (argument 1, optional)."""
import glob
import json
import os
import re
import sys

VERIF = os.path.dirname(os.path.dirname(os.path.abspath(__file__)))
KEYS = ('programs', 'executions', 'conversions', 'schedules', 'histories', 'trees', 'table_rows', 'call_pairs', 'fault_runs', 'builtin_calls',
        'layouts', 'cases', 'states', 'transitions', 'operator_invocations_checked', 'inputs_evaluated', 'pair_comparisons',
        'reanalysed_programs', 'transformation_sequences', 'embedded_conversions')
rows = []
for p in sorted(glob.glob(os.path.join(VERIF, 'evidence', 'C*.json'))):
  e = json.load(open(p))
  c = e['coverage']
  n = c.get('counters', {})
  rows.append('| %s | %s | %s | %d | %d | %s | %s | %.0f |' % (
      e['property_id'], e['tier'], e['level'], c['items'], c['distinct_nontrivial'],
      ', '.join('%s=%s' % (k, n[k]) for k in KEYS if k in n),
      'yes' if c.get('exhaustive') else 'no (a cap or stride was hit: see counters)', e['wall_s']))
out = '''## 10. Bounds actually completed (from /verif/evidence, current tree)

`exhaustive` = the enumeration finished without hitting a tape cap, a schedule
cap or a stride; where it says no, the space below the cap was still covered
completely and the counters name the cap. Wall times are for 16 workers.

**Quick tier**

| property | tier | level | items | distinct non-trivial | counters | exhaustive within bounds | wall s |
|---|---|---|---|---|---|---|---|
''' + '\n'.join(rows) + '\n'
if len(sys.argv) > 1:
  trows = []
  for p in sorted(glob.glob(os.path.join(sys.argv[1], 'runall_C*.log'))):
    last = [l for l in open(p, errors='replace') if re.match(r'^C\d\d tier=thorough', l)]
    if not last:
      continue
    l = last[-1]
    m = re.match(r'^(C\d\d) tier=thorough items=(\d+) distinct_outcomes=(\d+) violations=(\d+)\(new\)/(\d+)\(all sigs\) wall=([\d.]+)s (.*)', l)
    if not m:
      continue
    cnt = dict(kv.split('=') for kv in m.group(7).split() if '=' in kv)
    trows.append('| %s | %s | %s | %s | %s | %.0f |' % (m.group(1), m.group(2), m.group(4), m.group(5),
                                                       ', '.join('%s=%s' % (k, cnt[k]) for k in KEYS if k in cnt), float(m.group(6))))
  out += '''
**Thorough tier** (one complete pass on the unchanged tree; "known" = signatures listed in known_findings.json; wall times
were measured while other work was running on the machine)

| property | items | new violations | known signatures seen | counters | wall s |
|---|---|---|---|---|---|
''' + '\n'.join(trows) + '''

Rows C01 and C02 are from the first thorough pass (C01 before the syntax zoo and the retraise / nameidx menus were added:
those items were run at the thorough bounds separately with `VERIF_ITEM_FILTER`); all other rows are from the second pass at
the final code. A complete thorough pass takes about five to six hours on 16 cores.
'''
path = os.path.join(VERIF, 'DESIGN.md')
s = open(path).read()
a = s.index('## 10. Bounds actually completed')
b = s.index('\n## 11.')
open(path, 'w').write(s[:a] + out + s[b:])
print(len(rows), 'quick rows')
