#!/bin/bash
# usage: try_seed.sh <patch.diff> <check id> [more ids]  -- applies a seeded change to /repo, runs the quick checks, reverts
set -u
P=$1; shift
cd /repo
if ! git diff --quiet; then echo "/repo dirty, refusing"; exit 2; fi
git apply $P 2>/dev/null || { echo PATCH-DOES-NOT-APPLY; git reset -q HEAD; git checkout -- .; exit 3; }
git reset -q 2>/dev/null
cd /verif
for id in "$@"; do
  ./check $id --no-evidence ${TRY_ARGS:-} > /tmp/try_seed_$id.log 2>&1; rc=$?
  echo "== $id exit=$rc $(grep -c '^VIOLATION' /tmp/try_seed_$id.log) violation lines"
  grep -E '^violation sig' /tmp/try_seed_$id.log | cut -c1-300 | head -${TRY_SHOW:-3}
  grep -E '^HARNESS' /tmp/try_seed_$id.log | head -3
done
git -C /repo checkout -- .
git -C /repo status --short | grep -v egg-info
