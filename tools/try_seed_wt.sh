#!/bin/bash
# usage: try_seed_wt.sh <patch.diff> <check id> [more ids]
# like try_seed.sh but leaves /repo alone: applies the change in a scratch worktree and points the checks at it
# (MALT_REPO), so it can be used while another run is reading /repo.  The worktree is removed afterwards.
set -u
P=$(readlink -f $1); shift
VERIF=$(readlink -f "$(dirname "$0")/..")
WT=/tmp/wt_try_$$
git -C /repo worktree add -f --detach $WT HEAD >/dev/null 2>&1 || { echo "worktree failed"; exit 2; }
trap 'cd /; git -C /repo worktree remove --force $WT >/dev/null 2>&1' EXIT
cd $WT
git apply $P 2>/dev/null || { echo PATCH-DOES-NOT-APPLY; exit 3; }
cd $VERIF
for id in "$@"; do
  MALT_REPO=$WT ./check $id --no-evidence ${TRY_ARGS:-} > /tmp/try_seed_$$_$id.log 2>&1; rc=$?
  echo "== $id exit=$rc $(grep -c '^VIOLATION' /tmp/try_seed_$$_$id.log) violation lines"
  grep -E '^violation sig' /tmp/try_seed_$$_$id.log | cut -c1-300 | head -${TRY_SHOW:-3}
  grep -E '^HARNESS' /tmp/try_seed_$$_$id.log | head -3
  rm -f /tmp/try_seed_$$_$id.log
done
rm -rf replays/*/ 2>/dev/null
