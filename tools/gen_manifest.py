#!/usr/bin/env python3
"""Regenerates /verif/MANIFEST.json from the table below (single source of truth)."""
import json
import os

VERIF = os.path.dirname(os.path.dirname(os.path.abspath(__file__)))

# id -> (category, technique, level text, level note, design ref)
CHECKS = {
    'C01': ('exploration',
            'bounded-exhaustive program enumeration x exhaustive environment-tape exploration, differential against the unconverted function',
            'Every program of 16 focused statement menus (core, jumps, try, closures incl. aliased / transitive / two-level ones, '
            'expressions, attribute / subscript state, recursive callees, partials, globals, nested and starred loop targets, '
            'composite-index stores) up to the size bound (counts in the evidence) is converted under two '
            'configurations and executed on every environment tape (all branch/iteration decision sequences up to the cap); '
            'return value / exception type, ordered effect log (calls, iterator consumption, context managers) and post-state '
            'must equal the unconverted function. Violations are delta-reduced; the signature is the reduced witness.',
            'Bounded: program size, tape cap 6/7, <=3/4 non-default answers; conditions are environment oracles; data values '
            'limited to the history-encoding integers of the generator; hash seeds limited to those run.',
            'DESIGN.md 2/C01'),
    'C02': ('exploration',
            'bounded-exhaustive program enumeration; each converted program is traced once with a functional (tracing) operator backend and the term is evaluated on the whole input domain',
            'Side-effect-free, total, definitely-assigned programs with data conditions over traced arguments (6 menus incl. closures, '
            'aliased / transitive closures, nonlocal writers, attribute/constant-key state, tuple-target loops) are converted with a tracing backend that runs both '
            'branches of every traced conditional from one get_state() snapshot, keeps select() terms for the first nouts entries, '
            'and traces loop test/body once on placeholders injected by set_state(); the resulting term is evaluated on 144 inputs '
            'and must equal the original everywhere.',
            'Functions are only defined at the top level of the body; lambdas excluded (documented limitation). Known finding: '
            'nonlocal writes by a local function called inside control flow are not carried as state. "Random larger programs" of '
            'the quantifier are not claimed.',
            'DESIGN.md 2/C02'),
    'C03': ('exploration',
            'bounded-exhaustive program enumeration x exhaustive tapes, run with a contract-monitoring operator backend injected through PyToPy.get_extra_locals',
            'Every dynamic if_stmt/while_stmt/for_stmt/if_exp/and_/or_/not_ invocation of ~30k programs (C01 menus, plus a '
            'loop-directive variant of every program with a loop) on all tapes is checked: names/getter/setter lengths and '
            'positions (identity of each entry with the named variable in the calling frame), getter purity, set(get) identity, '
            'write-then-read round trip with sentinels, callback arities, nouts range, outputs-first (restoring entries >= nouts '
            'after every if_stmt must not change behaviour), opts = iterate_names + exactly the directives written in that loop, '
            'lazy and_/or_/if_exp.',
            'Undefined entries are skipped by identity checks; outputs-first restore not applied to the global-variable menu; '
            'bounds as C01. Documented lambda limitation counted, not reported. Known finding: writing back a composite entry '
            'whose base variable is unbound on the path taken is not a no-op.',
            'DESIGN.md 2/C03'),
    'C04': ('exploration',
            'exhaustive construct x context-chain enumeration; static scan of the generated AST + operator invocation counts vs. construct execution counts on all tapes',
            'Each of 11 constructs is placed in every chain of up to 2 (thorough 3) syntactic contexts (9 statement contexts, 29 '
            'expression contexts incl. a 120-deep operator chain, 11 bridges; ~16.5k programs quick); programs with print are '
            'converted a second time by the same transpiler with BUILTIN_FUNCTIONS; the generated code must contain no native '
            'if/while/for/break/continue/early return/and/or/not/ifexp/call outside the documented exceptions, and on every tape '
            'converted_call/for_stmt/while_stmt counts equal (if_stmt/and_/or_/not_/if_exp counts are at least) the construct '
            'executions of the instrumented original.',
            'Context alphabet and chain length bound; counts compared on executions that complete; calls inside comprehension '
            'clauses and print are optional. Known finding: lambda in a nested function\'s decorator fails to convert.',
            'DESIGN.md 2/C04'),
    'C05': ('exploration',
            'bounded-exhaustive skeleton enumeration x exhaustive branch-decision tapes; probe trace of the instrumented program must be a path of cfg.build()',
            'All skeletons over if/while/for(+else)/break/continue/return/try-except-else-finally/with/raise/def/lambda/class up to '
            'size 5 (plus jump-, exception- and bare-except-focused menus to size 5/6/8; ~0.85M programs, ~2.8M executions in quick) are '
            'built into CFGs; for all programs up to size 4 and a fixed sixteenth of the rest the graphs are re-checked after the '
            'dataflow analyses ran on them; static well-formedness (mirror links, index completeness, stmt_prev/stmt_next recomputed from lexical containment) '
            'and, for every tape, the executed statement sequence must be a path from entry to an exit/raise node.',
            'Bounded: program size, tape cap 8/10 with <=4/5 non-default answers; only explicit raise; executions are cut where an '
            'exception propagates through a finally (documented as unmodelled).',
            'DESIGN.md 2/C05'),
    'C06': ('exploration',
            'bounded-exhaustive program enumeration x exhaustive tapes; last-writer log of the instrumented run vs. DEFINITIONS / DEFINED_VARS_IN',
            'Every program of 10 menus (incl. aliased / transitive / two-level closures, nested and starred loop targets) up to the '
            'size bound x prologue variants is analysed; on every tape each executed read must '
            'carry the definition generated by its dynamic last writer, each dynamic entry of if/for/while/try must list all bound '
            'locals, and the solution is re-checked as a fixed point of the analysis\' own transfer function.',
            'Variables = simple local names; reads/writes derived from the statement ASTs of the generated programs; log cut at '
            'exceptional propagation through finally. Known finding: closure reads carry no definitions.',
            'DESIGN.md 2/C06'),
    'C07': ('exploration',
            'bounded-exhaustive program enumeration x exhaustive tapes; dynamic use-before-overwrite vs. liveness.Analyzer.in_ / LIVE_VARS_OUT',
            'Same program/tape space as C06 with two epilogues; after every executed statement instance every bound variable whose '
            'next access (including inside later local-function calls) is a read must be live at the entry of the next node and '
            'at the exit of every statement just left; fixed point re-checked.',
            'As C06; lambdas outliving their statement excluded (documented limitation).',
            'DESIGN.md 2/C07'),
    'C08': ('exploration',
            'bounded-exhaustive enumeration of scope trees x binding constructs; oracle = CPython symtable and per-line bytecode',
            'Every list of up to 3 (thorough 4) binding/reading constructs (incl. slice bounds, tuple indices, slice stores, f-string '
            'format specs) over two names, nested through def (each parameter kind, positional and keyword-only default, annotation, '
            'decorator), lambda, class and if to depth 3, that CPython accepts (~0.3M programs quick) is analysed; '
            'per function scope locals/globals/nonlocals/params/closure variables must equal symtable\'s, and per statement the '
            'names loaded/stored/deleted by the line\'s bytecode must be in read/modified/deleted.',
            'Comprehension targets and except-clause names excluded (property text); PEP 709 save/restore stores ignored; '
            '"actually reads" = bytecode of the statement line.',
            'DESIGN.md 2/C08'),
    'C09': ('exploration',
            'complete enumeration of signature shapes x default kinds, closure shapes and entity kinds; all call bindings per case',
            '1.9k signature shapes (positional-only / positional / *args / keyword-only / **kw with every legal assignment of no / '
            'immutable / mutable defaults) plus 6 closure shapes x 8 entity kinds (incl. falsy receivers and an entity carrying '
            '__wrapped__): inspect.signature, identity of default objects, '
            '__globals__ identity, closure cell identity by name, default expressions and decorators evaluated exactly once, results '
            'of every call binding (130k calls) for to_graph and for the convert() wrapper, rebinding through a sibling / nonlocal '
            'seen on both sides, further functions of the same factory (cells holding equal and different values) get their own cells.',
            'Each case embeds a unique constant so that code objects of different cases never compare equal (cache aliasing is '
            'C10\'s subject).',
            'DESIGN.md 2/C09'),
    'C10': ('model_checking',
            'explicit-state breadth-first search over request histories on the real transpiler against a dict reference model + exhaustive schedule exploration under a cooperative scheduler with preemption bounding',
            'Histories: BFS (depth 3, thorough 4) over requests {transform, convert() wrapper call, converted_call} x 6 function pools '
            '(bound methods of two instances with a fresh bound-method object per request, two closures of one factory, equal code in two globals dicts + a defaults-less FunctionType copy, loop functions with '
            'different defaults, lambda, redefinition under the same name/file/line) x 6 option values (two equal-but-distinct, four '
            'differing from them in exactly one field); each state is rebuilt by replaying its history on a fresh transpiler; every '
            'transition must behave like a fresh conversion of that very function object and run the transformation iff the '
            'reference dict lacks the key; plus a define/convert/collect/redefine history. Schedules: 2 threads x 1-2 requests and '
            '3 threads x 1 request on colliding keys, all schedules with <= 2 preemptions (identity transform) and <= 1 (real '
            'AutoGraph transpiler), ~18k schedules, cache lock replaced by a scheduler-aware lock: no error, no deadlock, one '
            'transformation and one generated module per key, each thread gets its own function.',
            'Scheduling points = traced lines of pyct/transpiler.py (outside transform_ast) and pyct/cache.py + lock operations; '
            '"1..32 threads with randomized barriers" of the quantifier is replaced by the exhaustive 2-3 thread core (not claimed).',
            'DESIGN.md 2/C10'),
    'C11': ('exploration',
            'exhaustive enumeration of adversarial identifier x role x control skeleton; differential execution on all tapes + Namer.new_symbol interception',
            'Each name of the converter vocabulary (22 quick; + numbered variants and pairs thorough) is placed in 16 roles (exception-'
            'handler name, handler nested in a handler, name first used after the block, lambda parameter inside a nested def, state '
            'variable, assigned only, read only, parameter, global read/declared, closure variable, nested function name, loop '
            'target, lambda parameter, global callable, global read only from a nested function) in 7 control skeletons: conversion '
            'must succeed, behaviour must equal the original on every tape, no name returned by Namer.new_symbol and no binding '
            'introduced by the converter may coincide with an identifier of the original or of the function namespace.',
            'ag__ itself (the injected module name) is outside the vocabulary of the property. The former known finding (parameter of a '
            'nested lambda) and three further clashes were repaired in the repository (fc05063).',
            'DESIGN.md 2/C11'),
    'C12': ('exploration',
            'bounded-exhaustive enumeration of failing programs x callee chains x all tapes; oracle = traceback of the unconverted call',
            'Innermost skeletons with exactly one failing statement (11 failure kinds) under callee chains of depth <= 2 (thorough 3) '
            'over converted / do_not_convert / lambda / decorated / functools.wraps-wrapped callees with call sites plain, in if, in for, '
            'and failing statements inside a local function (~4.5k programs quick): on every tape where the original raises, the exception from the convert() wrapper must have the required '
            'type, contain the original message, name the innermost user frame of the original traceback first, list only frames '
            'of that traceback in order with one converted entry per converted function, and the source map entry of every '
            'executed environment call must lead to its original line.',
            'Message containment; non-user frames between user frames allowed; one statement per line.',
            'DESIGN.md 2/C12'),
    'C13': ('fault_enumeration',
            'complete decision-table enumeration against an independently written policy table + enumeration of every recorded call boundary of the conversion pipeline as a fault point',
            'Table: 24 callable kinds x 5 argument shapes x 4 option values x 3 context statuses, every ordered pair of (kind, options) '
            'calls sharing the caches (9216 sequences of length 2 quick), and 101 defining-module names '
            '(each allow-list rule prefix: exact, submodule, two prefix-sharing user modules) x options x statuses = 2.4k rows: result, '
            'target body invocation count, partial objects unchanged, conversion status restored, "was converted" equal to the '
            'documented rules. Faults: a fault-free conversion of 3 targets records ~1.5M call boundaries; deduplicated points '
            '(callee, caller line, occurrence <= 2): all stage points x 12 exception types, fine points x 2 types (quick: every 8th, '
            'offset by VERIF_SEED; thorough: all), strict mode: direct-call result, target run once, exactly one warning, failure '
            'remembered for these options only, cache lock free, status stack unchanged; strict mode propagates.',
            'Fault points are identified by (callee, caller line, occurrence), so small run-to-run differences in event order do not '
            'matter; quick tier covers a stride of the fine points (exhaustive only in thorough).',
            'DESIGN.md 2/C13'),
    'C14': ('exploration',
            'exhaustive enumeration of call shapes x value alphabets per substituted builtin, differential against the builtin; context builtins in enumerated nestings x all tapes',
            '2.6k calls covering every call shape of the 13 substituted builtins (optional parameters absent / positional / keyword) '
            'over value alphabets incl. nan/inf/-0.0, numeric and non-numeric strings, one-shot iterators, generators, counting '
            'sources, tied sort keys, dunder-implementing objects and rejected values, each made through overload_of() and through '
            'converted_call() (keyword calls also through a functools.partial binding the first keyword): equal result, equal item '
            'sequence and laziness, equal captured output (incl. an argument whose repr is observable), same exception type; '
            'registry isolation for the 12 type registries; plus eval (also with explicit / empty / None namespaces) / locals / '
            'globals / super() (also inherited, cooperative, explicit-then-implicit) at nesting depth 0-3 of if/for/while bodies '
            'on all tapes.',
            'Call shapes the builtin itself rejects may be accepted by the substitute. Known finding: eval cannot see variables '
            'named only inside the evaluated string when called from a functionalised body.',
            'DESIGN.md 2/C14'),
    'C15': ('exploration',
            'complete product of source-layout features; each layout is written to a module file, imported, and parser.parse_entity is compared with the node of ast.parse(module) that defines the object',
            '3 indentation styles x 8 nesting positions x 4 decorator forms x 2 signature forms x every subset of <= 2 (thorough 3) of '
            '11 body features (~12.9k layouts quick) plus 13 lambda / wrapper layouts per indentation, redefinition sequences (file '
            'rewritten and executed again, 5 variants, def and lambda), the tree handed to transform_ast by an identity transpiler '
            'and two lambdas of one line converted by the same transpiler: the recovered tree must be '
            'structurally identical to the compiled definition; for lambdas an explicit UnsupportedLanguageElementError is accepted, '
            'a different lambda never.',
            'Known findings: a comment ending in a backslash swallows the next line; backslash-newline inside a raw string is removed '
            '(both from the textual continuation unfolding).',
            'DESIGN.md 2/C15'),
    'C16': ('model_checking',
            'explicit enumeration of call-tree histories against a list-as-stack reference model + exhaustive schedule exploration of the real code under a cooperative scheduler with preemption bounding',
            'Histories: every call tree with <= 3 nodes (thorough 4) over 15 node kinds (incl. internal_convert with a context object '
            'captured outside the parent and a generator wrapped by do_not_convert) x raising node (entry/exit, Exception or '
            'BaseException) x catching ancestor (~103k executions quick) is run on the real wrappers and compared observation by '
            'observation with the reference model; identity of the context object is checked around every call. Schedules: 2-3 '
            'threads each running a tree under the scheduler (scheduling point at every traced line of ag_ctx.py and '
            'function_wrappers.py), all schedules with <= 1 preemption for 15 pairs and <= 2 for 2 pairs (23k schedules, none '
            'truncated); each thread must observe what it observes alone.',
            'Scheduling points = traced lines of the two context modules; 1..32 randomly started threads of the quantifier are '
            'replaced by the exhaustive 2-3 thread core (not claimed).',
            'DESIGN.md 2/C16'),
    'C17': ('exploration',
            'bounded-exhaustive program x option-set enumeration; the tree handed to loader.load_ast is checked against its own printed, loaded and re-parsed form',
            'For ~12k (program, option set, with/without __future__ import) combinations (C01 menus + a 24-kind literal/expression '
            'menu up to 2-3 statements, also as the body of a functools.wraps closure, 5 feature sets incl. LISTS) the captured tree must have no node reachable twice, compile, '
            'equal ast.parse of the text written to the module file, to_code must be the source of the loaded function, and every '
            'source-map entry of a marked generated line must lead to the original line with the same marker.',
            'Structural equality ignores positions / annotation pseudo-field / operator singletons; markers = site numbers of '
            'environment calls.',
            'DESIGN.md 2/C17'),
    'C18': ('exploration',
            'exhaustive enumeration of expression shapes x statement positions x configurations; transformed code executed against the original with fully observable operands',
            '32 expression forms (strict and lazy, incl. displays with * / ** and Ellipsis subscripts) with one nested form at every '
            'operand position (thorough: depth 3), placed in 21 statement positions, under the default and 6 edge-pattern '
            'configurations (~80k statements quick), plus sequences of two transformations of one live function: rejected shapes must '
            'raise ValueError; accepted ones must compile, keep temporaries distinct, be in A-normal form (default configuration) '
            'and, executed on 5 truth patterns with value objects that log every operation, produce the same ordered effect log and '
            'result as the original.',
            'Known findings: post-order hoisting reorders operands (one root cause, 4 shape classes); unpacking of a starred display '
            'element is delayed; the text-comparing ANF tests pin '
            'that numbering, so it cannot be repaired without editing tests. Shapes containing a lazy form are never downgraded.',
            'DESIGN.md 2/C18'),
    'C19': ('exploration',
            'bounded-exhaustive program enumeration x typed inputs x all tapes; TYPES / CLOSURE_TYPES annotations vs. the run-time types logged by an instrumented run, with a truthful resolver',
            '~50k programs (menus: scalar types and joins, tuples / lists / unpacking / chained assignment, local functions reading / '
            'nonlocal-rebinding, functions (re)defined in loops, three function levels, equal literals of different type, break '
            'in the else clause of nested loops) are analysed with a resolver that answers by applying the real operator to representatives; '
            'on every execution (3 typed inputs x all tapes) every annotated Name load / store must contain the run-time type of its '
            'value and CLOSURE_TYPES must cover the captured variables at each call of the local function; a fixed-point guard '
            'reports non-terminating inference.',
            'Known findings: assignments from values of unknown type (incl. every augmented assignment) keep the old type; nonlocal '
            'rebinding by a local function is not reflected after the call; inference diverges on x = (x, y) in a loop. Violations '
            'are attributed to these root causes by dynamic taint tracking of the last writer.',
            'DESIGN.md 2/C19'),
    'C20': ('exploration',
            'complete enumeration of the finite option space (1024 values, 1024^2 pairs) against a reference tuple model',
            'The whole configuration space is enumerated (exhaustive: true): AST round trip, eq/hash over all pairs, '
            'call_options (fields and value semantics), uses, alternative spellings, and the options expression embedded by a real '
            'conversion for the 128 values FunctionScope accepts, followed by conversions of the same function under the 7 other '
            'flag combinations and with each feature toggled (same transpiler).',
            'Reference semantics = the constructor parameters; hash seeds limited to those run (recorded in evidence).',
            'DESIGN.md 2/C20'),
}

PENDING_REASON = 'checker not built yet (planned, see DESIGN.md section 2); not claimed until it runs clean'


def main():
  props = [json.loads(l) for l in open(os.path.join(VERIF, 'properties.jsonl'))]
  checks = []
  na = []
  for p in props:
    pid = p['id']
    if pid in CHECKS:
      cat, tech, text, note, ref = CHECKS[pid]
      checks.append({
          'property_id': pid,
          'quick_cmd': './check %s --tier quick' % pid,
          'thorough_cmd': './check %s --tier thorough' % pid,
          'evidence_file': 'evidence/%s.json' % pid,
          'replay_cmd_template': './check %s --replay {path}' % pid,
          'engine': 'mc',
          'level_claimed': {'category': cat, 'text': text, 'design_ref': ref},
          'level_note': note,
          'technique': tech,
      })
    else:
      na.append({'property_id': pid, 'reason': PENDING_REASON})
  m = {
      'version': 1,
      'setup_cmd': '/venv/bin/python -m compileall -q mc >/dev/null && /venv/bin/python -c "import sys; sys.path[:0]=[\'/repo\',\'/verif\']; import malt, mc.runner"',
      'hooks': {
          'guard': 'PENNYLANEAI_DIASTATIC_MALT_VERIF',
          'enable': 'no source hooks are needed: checks observe /repo through subclassing, attribute replacement on live objects and sys.settrace; the guard variable is exported by the runner for completeness',
          'baseline_off_cmd': 'cd /repo && /venv/bin/python -m pytest -ra -q -p no:cacheprovider --timeout=900 --continue-on-collection-errors',
          'source_commits': [],
          'add_only': True,
      },
      'engines': [
          {'name': 'mc', 'path': 'mc/', 'serves_properties': sorted(CHECKS),
           'kind_free_text': 'hand-written bounded-exhaustive explorers in Python: program-space enumeration x environment-tape DFS '
                             'with differential / instrumented oracles, cooperative schedule explorer with preemption bounding, '
                             'fault-point enumerator; all run the real code in /repo'},
      ],
      'checks': checks,
      'not_applicable': na,
      'notes': 'All checks run /repo\'s working tree through /venv/bin/python with PYTHONPATH=/repo:/verif. Exit 2 = harness broken (canary silent / worker crash), never used for pass or violation.',
  }
  with open(os.path.join(VERIF, 'MANIFEST.json'), 'w') as f:
    json.dump(m, f, indent=1)
    f.write('\n')


if __name__ == '__main__':
  main()
