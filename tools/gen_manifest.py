#!/usr/bin/env python3
"""Regenerates /verif/MANIFEST.json from the table below (single source of truth)."""
import json
import os

VERIF = os.path.dirname(os.path.dirname(os.path.abspath(__file__)))

# id -> (category, technique, level text, level note, design ref)
CHECKS = {
    'C01': ('exploration',
            'bounded-exhaustive program enumeration x exhaustive environment-tape exploration, differential against the unconverted function',
            'Every program of 8 focused statement menus up to the size bound (quick: 17.8k programs) is converted under two '
            'configurations and executed on every environment tape (all branch/iteration decision sequences up to the cap); '
            'return value / exception type, ordered effect log (calls, iterator consumption, context managers) and post-state '
            'must equal the unconverted function. Violations are delta-reduced; the signature is the reduced witness.',
            'Bounded: program size, tape cap 6/7, <=3/4 non-default answers; conditions are environment oracles; data values '
            'limited to the history-encoding integers of the generator; hash seeds limited to those run.',
            'DESIGN.md 2/C01'),
    'C20': ('exploration',
            'complete enumeration of the finite option space (1024 values, 1024^2 pairs) against a reference tuple model',
            'The whole configuration space is enumerated (exhaustive: true): AST round trip, eq/hash over all pairs, '
            'call_options, uses, alternative spellings, and the options expression embedded by a real conversion for '
            'the 128 values FunctionScope accepts.',
            'Reference semantics = the constructor parameters; hash seeds limited to those run (recorded in evidence).',
            'DESIGN.md 2/C20'),
}

PENDING_REASON = 'checker not built yet in this round (planned, see DESIGN.md section 2); not claimed until it runs clean'


def main():
  props = [json.loads(l) for l in open(os.path.join(VERIF, 'properties.jsonl'))]
  checks = []
  na = []
  for p in props:
    pid = p['id']
    if pid in CHECKS:
      cat, tech, text, note, ref = CHECKS[pid]
      checks.append({
          'property_id': pid,
          'quick_cmd': './check %s --tier quick' % pid,
          'thorough_cmd': './check %s --tier thorough' % pid,
          'evidence_file': 'evidence/%s.json' % pid,
          'replay_cmd_template': './check %s --replay {path}' % pid,
          'engine': 'mc',
          'level_claimed': {'category': cat, 'text': text, 'design_ref': ref},
          'level_note': note,
          'technique': tech,
      })
    else:
      na.append({'property_id': pid, 'reason': PENDING_REASON})
  m = {
      'version': 1,
      'setup_cmd': '/venv/bin/python -m compileall -q mc >/dev/null && /venv/bin/python -c "import sys; sys.path[:0]=[\'/repo\',\'/verif\']; import malt, mc.runner"',
      'hooks': {
          'guard': 'PENNYLANEAI_DIASTATIC_MALT_VERIF',
          'enable': 'no source hooks are needed: checks observe /repo through subclassing, attribute replacement on live objects and sys.settrace; the guard variable is exported by the runner for completeness',
          'baseline_off_cmd': 'cd /repo && /venv/bin/python -m pytest -ra -q -p no:cacheprovider --timeout=900 --continue-on-collection-errors',
          'source_commits': [],
          'add_only': True,
      },
      'engines': [
          {'name': 'mc', 'path': 'mc/', 'serves_properties': sorted(CHECKS),
           'kind_free_text': 'hand-written bounded-exhaustive explorers in Python: program-space enumeration x environment-tape DFS '
                             'with differential / instrumented oracles, cooperative schedule explorer with preemption bounding, '
                             'fault-point enumerator; all run the real code in /repo'},
      ],
      'checks': checks,
      'not_applicable': na,
      'notes': 'All checks run /repo\'s working tree through /venv/bin/python with PYTHONPATH=/repo:/verif. Exit 2 = harness broken (canary silent / worker crash), never used for pass or violation.',
  }
  with open(os.path.join(VERIF, 'MANIFEST.json'), 'w') as f:
    json.dump(m, f, indent=1)
    f.write('\n')


if __name__ == '__main__':
  main()
