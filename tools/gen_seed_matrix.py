#!/usr/bin/env python3
"""Regenerates the table of DESIGN.md section 9 from /verif/seeded/*/meta.json (the prose above the table is hand-written)."""
import glob
import json
import os
import re

VERIF = os.path.dirname(os.path.dirname(os.path.abspath(__file__)))


def key(p):
  m = re.match(r'.*/(C\d+)-m(\d+)/meta.json', p)
  return (m.group(1), int(m.group(2)))


rows = []
for p in sorted(glob.glob(os.path.join(VERIF, 'seeded', '*', 'meta.json')), key=key):
  m = json.load(open(p))
  wave = 1 if key(p)[1] <= 3 else (2 if key(p)[1] <= 6 else (3 if key(p)[1] <= 9 else 4))
  if m['id'].startswith('C11') and key(p)[1] >= 4:
    wave = 3
  rows.append('| %s | %d | %s | %s | %s |' % (m['id'], wave, m['breaks_property'], ', '.join(m['caught_by']) or 'NOT CAUGHT',
                                              m['needs_to_manifest'].replace('|', '/')))
path = os.path.join(VERIF, 'DESIGN.md')
s = open(path).read()
head = '| seed | wave | property | caught by | what it needs to manifest |\n|---|---|---|---|---|\n'
a = s.index('| seed |')
b = s.index('\n## 10.')
s = s[:a] + head + '\n'.join(rows) + '\n' + s[b:]
open(path, 'w').write(s)
print(len(rows), 'rows')
