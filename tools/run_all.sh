#!/bin/bash
# usage: run_all.sh [quick|thorough] [ids...]  -- runs the registered checks one after the other, prints one line each
TIER=${1:-quick}; shift
IDS=${@:-C01 C02 C03 C04 C05 C06 C07 C08 C09 C10 C11 C12 C13 C14 C15 C16 C17 C18 C19 C20}
cd "$(dirname "$0")/.."
for id in $IDS; do
  s=$(date +%s)
  ./check $id --tier $TIER > ${RUNALL_LOGDIR:-/tmp}/runall_$id.log 2>&1; rc=$?
  e=$(date +%s)
  echo "$id tier=$TIER exit=$rc $((e-s))s viol=$(grep -c '^VIOLATION' ${RUNALL_LOGDIR:-/tmp}/runall_$id.log) known=$(grep -c '^KNOWN-FINDING' ${RUNALL_LOGDIR:-/tmp}/runall_$id.log) $(grep -c '^HARNESS' ${RUNALL_LOGDIR:-/tmp}/runall_$id.log | sed 's/^0$//;s/^[1-9].*/HARNESS-BROKEN/')"
done
