#!/usr/bin/env python3
"""keep_seed.py <src dir> <seed id> <property> <caught-by (comma list or 'none')> <needs...>"""
import json, os, shutil, sys
src, sid, prop, caught = sys.argv[1:5]
needs = ' '.join(sys.argv[5:])
dst = os.path.join('/verif/seeded', sid)
os.makedirs(dst, exist_ok=True)
for f in ('patch.diff', 'demo.py', 'notes.md'):
  if os.path.exists(os.path.join(src, f)):
    shutil.copy(os.path.join(src, f), dst)
meta = {'id': sid, 'breaks_property': prop, 'needs_to_manifest': needs,
        'confirmed_by': 'tools/verify_seed.sh (scratch worktree of /repo HEAD: demo exits 0 without, non-zero with the patch; pinned test suite still passes)',
        'checks_run': 'tools/try_seed.sh <patch> %s (quick tier)' % caught.replace(',', ' '),
        'caught_by': [] if caught == 'none' else caught.split(',')}
json.dump(meta, open(os.path.join(dst, 'meta.json'), 'w'), indent=1)
print('kept', dst)
