#!/bin/bash
# usage: verify_seed.sh <dir with patch.diff demo.py>   -- confirms a seeded change in a scratch worktree of /repo HEAD
set -u
D=$1
WT=/tmp/wt_verify_$$
git -C /repo worktree add -f $WT HEAD >/dev/null 2>&1 || { echo "worktree failed"; exit 2; }
cd $WT
PYTHONPATH=$WT /venv/bin/python $D/demo.py >/dev/null 2>&1; base=$?
if ! git apply $D/patch.diff 2>/dev/null; then echo "PATCH-DOES-NOT-APPLY"; cd /; git -C /repo worktree remove --force $WT; exit 3; fi
PYTHONPATH=$WT /venv/bin/python $D/demo.py >/dev/null 2>&1; mut=$?
tests=$(python3 /verif/tools/run_baseline.py $WT | head -1)
cd /
git -C /repo worktree remove --force $WT
echo "demo_without=$base demo_with=$mut tests: $tests"
[ $base -eq 0 ] && [ $mut -ne 0 ] && echo "$tests" | grep -q "missing=0" && echo SEED-CONFIRMED || echo SEED-NOT-CONFIRMED
